"""
C26 -- file sharing and record locks exclude each other (structural half).

Decides:
 * range overlap: the predicate that rejects a lock in Locks._try_record_lock
   is extracted from the AST (the disjunct over start/stop/start_1/stop_1) and
   compared with the reference interval-overlap predicate
   `start <= stop_1 and start_1 <= stop` on ALL 26 order types of four values
   that satisfy start <= stop, start_1 <= stop_1 (OrderTypes: a predicate
   built from comparisons depends only on the weak ordering of its arguments;
   75 weak orderings of four values, exhaustive);  a whole-file lock held by
   another conflicts with everything; a whole-file request conflicts with any
   lock -- the endpoint-containment predicate the code used before /repo
   fix "a record lock is refused when it overlaps..." accepted a range that
   strictly contains a locked one;
 * OUTPUT/APPEND exclusivity: open_file raises File already open when the same
   name is open and the mode is O or A, before anything is registered;
 * acquire_record_lock adds to the lock set only after _try_record_lock passed
   with allow_self=False (locks through the same file number also exclude);
 * release_record_lock removes the exact (start, stop) tuple and maps a missing
   tuple to Permission denied;
 * RandomFile.get/put call try_record_access for the record about to be
   transferred before any I/O; TextFile.read/write call try_access first;
 * lock limits: record numbers outside 1..2^25-2 raise Bad record number.
"""
import ast

from ..source import norm, short
from ..flow import own_nodes
from ..orders import compare, describe
from .. import mutate as mu

PROP = 'C26'
LEVEL = 'other'
TECHNIQUE = 'static analysis: exhaustive order-type evaluation of the extracted overlap predicate; must-precede of access checks before I/O'
EXPLANATION = __doc__

DF = 'pcbasic/basic/devices/diskfiles.py'
FILES = 'pcbasic/basic/devices/files.py'
NAMES = ['start', 'stop', 'start_1', 'stop_1']


def check(ctx, rep):
    tl = ctx.fn(DF + ':Locks._try_record_lock')
    fl = ctx.flow(tl)
    loops = [n for n in own_nodes(tl) if isinstance(n, ast.For) and isinstance(n.target, ast.Tuple)
             and [norm(e) for e in n.target.elts] == ['start_1', 'stop_1']]
    rep.ob('overlap.loop', 'the range check iterates over every lock held by the others', len(loops) == 1 and norm(loops[0].iter) == 'other_lock_set',
           '', ctx.where(tl))
    if loops:
        ifs = [n for n in loops[0].body if isinstance(n, ast.If)]
        ok = len(ifs) == 1 and isinstance(ifs[0].test, ast.BoolOp) and isinstance(ifs[0].test.op, ast.Or)
        rep.ob('overlap.shape', 'rejecting condition is `whole-file lock held OR ranges overlap`', ok, '', ctx.where(loops[0]))
        if ok:
            parts = ifs[0].test.values
            whole = [p for p in parts if 'is None' in norm(p)]
            rng = [p for p in parts if p not in whole]
            rep.ob('overlap.whole-file-held', 'a whole-file lock held by another blocks every range',
                   len(whole) == 1 and norm(whole[0]) == 'stop_1 is None and start_1 is None', repr([norm(w) for w in whole]), ctx.where(ifs[0]))
            pred = ast.BoolOp(op=ast.Or(), values=rng) if len(rng) > 1 else (rng[0] if rng else ast.Constant(value=False))
            n, bad = compare(pred, 'start <= stop_1 and start_1 <= stop', NAMES, 'start <= stop and start_1 <= stop_1')
            rep.note('order_types_checked', n)
            rep.ob('overlap.predicate-equals-interval-overlap', 'extracted predicate == (start <= stop_1 and start_1 <= stop) on all %d admissible order types' % n,
                   n == 26 and not bad, 'disagrees on: %s' % '; '.join(describe(b) for b in bad[:4]), ctx.where(ifs[0]))
            codes = [ctx.basic_error_code(r) for r in own_nodes(ifs[0]) if isinstance(r, ast.Raise)]
            rep.ob('overlap.error', 'an overlapping request raises Permission denied', codes == ['PERMISSION_DENIED'], repr(codes), ctx.where(ifs[0]))
    wf = [r for r, c in ctx.raises_in(tl) if c == 'PERMISSION_DENIED' and fl.knows(r, 'stop is None and start is None', True)]
    rep.ob('overlap.whole-file-request', 'a whole-file request conflicts with any lock held by another', len(wf) == 1 and fl.knows(wf[0], 'other_lock_set', True), '', ctx.where(tl))
    ol = [n for n in own_nodes(tl) if isinstance(n, ast.Assign) and norm(n.targets[0]) == 'other_locks']
    ok = len(ol) == 1 and 'self.list_open(this_file.name, number if allow_self else None)' in norm(ol[0].value)
    rep.ob('overlap.whose-locks', 'locks of every other open instance of the same file (and of this one unless allow_self)', ok, '', ctx.where(tl))
    # open exclusivity
    of = ctx.fn(DF + ':Locks.open_file')
    fl = ctx.flow(of)
    fa = [r for r, c in ctx.raises_in(of) if c == 'FILE_ALREADY_OPEN']
    reg = [n for n in own_nodes(of) if isinstance(n, ast.Assign) and norm(n.targets[0]) == 'self._locking_parameters[number]']
    rep.ob('open.output-exclusive', 'OUTPUT/APPEND on a name that is open raises File already open before registering',
           len(fa) == 1 and fl.knows(fa[0], "mode in (b'O', b'A') and already_open", True) and len(reg) == 1 and fa[0].lineno < reg[0].lineno, '', ctx.where(of))
    ao = [norm(n.value) for n in own_nodes(of) if isinstance(n, ast.Assign) and norm(n.targets[0]) == 'already_open']
    rep.ob('open.output-exclusive', 'already_open = every registered file of that name', ao == ['self.list_open(name)'], repr(ao), ctx.where(of))
    lo = ctx.fn(DF + ':Locks.list_open')
    r = norm([x for x in own_nodes(lo) if isinstance(x, ast.Return)][0].value)
    rep.ob('open.same-name', 'files are matched by upper-cased base name', 'f.name == ntpath.basename(name).upper() and number != exclude_number' in r, r, ctx.where(lo))
    # registration for O/A happens even without a file number? (number 0 returns before registering: system files)
    # acquire / release
    aq = ctx.fn(DF + ':Locks.acquire_record_lock')
    stmts = [norm(s) for s in aq.body]
    try:
        ok = stmts.index('self._try_record_lock(number, start, stop, allow_self=False)') < stmts.index('this_file.lock_set.add((start, stop))')
    except ValueError:
        ok = False
    rep.ob('acquire.check-then-add', 'a lock is recorded only after the conflict check (own locks included)', ok, repr(stmts), ctx.where(aq))
    rl = ctx.fn(DF + ':Locks.release_record_lock')
    flr = ctx.flow(rl)
    rm = [c for c in own_nodes(rl) if isinstance(c, ast.Call) and norm(c) == 'this_file.lock_set.remove((start, stop))']
    h = flr.in_try_catching(rm[0], ('KeyError',)) if rm else None
    codes = [ctx.basic_error_code(r) for r in own_nodes(h) if isinstance(r, ast.Raise)] if h is not None else []
    rep.ob('release.exact-range', 'UNLOCK removes exactly the (start, stop) tuple; otherwise Permission denied', len(rm) == 1 and codes == ['PERMISSION_DENIED'], repr(codes), ctx.where(rl))
    # access checks before I/O
    for meth, acc in (('get', "b'R'"), ('put', "b'W'")):
        fn = ctx.fn('%s:RandomFile.%s' % (DF, meth))
        chk = [c for c in own_nodes(fn) if isinstance(c, ast.Call) and norm(c.func) == 'self._locks.try_record_access']
        io = [c for c in own_nodes(fn) if isinstance(c, ast.Call) and norm(c.func) in ('self._fhandle.read', 'self._fhandle.write', 'self._field_file.set_buffer')]
        ok = len(chk) == 1 and [norm(a) for a in chk[0].args] == ['self._number', 'self._recpos + 1', 'self._recpos + 1', acc] and bool(io) and \
            all(chk[0].lineno < c.lineno for c in io)
        rep.ob('access.record-checked-before-io', 'RandomFile.%s checks the lock on record _recpos+1 before any transfer' % meth, ok, '', ctx.where(fn))
        rep.ob('access.record-check-unconditional', 'RandomFile.%s checks the lock on every path (a statement of the function body, not of a branch)' % meth,
               len(chk) == 1 and isinstance(chk[0]._parent, ast.Expr) and chk[0]._parent in fn.body,
               'the lock is consulted only on some paths: a locked record beyond the end of the file (or whatever the branch excludes) can be read or written', ctx.where(fn))
        sp = [c for c in own_nodes(fn) if isinstance(c, ast.Call) and norm(c.func) == 'self._set_record_pos']
        rep.ob('access.record-checked-before-io', 'RandomFile.%s positions first, so the checked record is the one transferred' % meth,
               len(sp) == 1 and bool(chk) and sp[0].lineno < chk[0].lineno, '', ctx.where(fn))
    tra = ctx.fn(DF + ':Locks.try_record_access')
    st = [norm(s) for s in tra.body if isinstance(s, ast.Expr) and isinstance(s.value, ast.Call)]
    rep.ob('access.record-access', 'try_record_access = try_access + _try_record_lock(allow_self=True, read_only for R)',
           st == ['self.try_access(number, access)', "self._try_record_lock(number, start, stop, allow_self=True, read_only=access == b'R')"], repr(st), ctx.where(tra))
    for meth, acc in (('read', "b'R'"), ('write', "b'W'")):
        fn = ctx.fn('%s:TextFile.%s' % (DF, meth))
        st = [norm(s) for s in fn.body if not (isinstance(s, ast.Expr) and isinstance(s.value, ast.Constant))]
        rep.ob('access.text-checked-before-io', 'TextFile.%s checks access first' % meth, st[:1] == ['self._locks.try_access(self._number, %s)' % acc], repr(st[:1]), ctx.where(fn))
    ta = ctx.fn(DF + ':Locks.try_access')
    codes = [c for r, c in ctx.raises_in(ta)]
    rep.ob('access.errors', 'ACCESS / LOCK declaration violations raise Path/File access error', codes == ['PATH_FILE_ACCESS_ERROR', 'PATH_FILE_ACCESS_ERROR'], repr(codes), ctx.where(ta))
    # limits
    gl = ctx.fn(FILES + ':Files._get_lock_limits')
    fl = ctx.flow(gl)
    br = [r for r, c in ctx.raises_in(gl) if c == 'BAD_RECORD_NUMBER']
    ok = len(br) == 1 and fl.knows(br[0], 'lock_start_rec < 1 or lock_start_rec > 2 ** 25 - 2 or lock_stop_rec < 1 or (lock_stop_rec > 2 ** 25 - 2)', True)
    rep.ob('limits.record-numbers', 'lock bounds outside 1..2^25-2 raise Bad record number', ok, '', ctx.where(gl))
    # defaults: the whole file only if BOTH bounds are left out; a missing start is 1, a missing stop is the start
    whole = [r for r in own_nodes(gl) if isinstance(r, ast.Return) and norm(r.value) == '(None, None)']
    facts = [sorted((f.text, f.pol) for f in fl.facts(r) if 'lock_' in f.text and ' and ' not in f.text and ' or ' not in f.text) for r in whole]
    rep.ob('limits.whole-file-only-without-bounds', 'a whole-file lock is returned iff both bounds are None', facts == [[('lock_start_rec is None', True), ('lock_stop_rec is None', True)]],
           'a lock with one bound given would cover the whole file: %r' % facts, ctx.where(gl))
    dflt = dict((norm(a.targets[0]), (norm(a.value), sorted((f.text, f.pol) for f in fl.facts(a) if f.text.endswith('is None') and f.pol)))
                for a in own_nodes(gl) if isinstance(a, ast.Assign) and not isinstance(a.value, ast.Call))
    rep.ob('limits.whole-file-only-without-bounds', 'a missing start is record 1, a missing stop is the start record',
           dflt == {'lock_start_rec': ('1', [('lock_start_rec is None', True)]), 'lock_stop_rec': ('lock_start_rec', [('lock_stop_rec is None', True)])}, repr(dflt), ctx.where(gl))
    for meth in ('lock_', 'unlock_'):
        fn = ctx.fn('%s:Files.%s' % (FILES, meth))
        c = [x for x in own_nodes(fn) if isinstance(x, ast.Call) and norm(x.func) == 'thefile.' + meth.rstrip('_')]
        rep.ob('limits.statement-wiring', '%s passes the checked limits to the file' % meth,
               len(c) == 1 and norm(c[0].args[0]) == '*self._get_lock_limits(lock_start_rec, lock_stop_rec)', '', ctx.where(fn))
    for cls in ('RandomFile', 'TextFile'):
        for meth, target in (('lock', 'acquire_record_lock'), ('unlock', 'release_record_lock')):
            fn = ctx.fn('%s:%s.%s' % (DF, cls, meth))
            c = [norm(x) for x in own_nodes(fn) if isinstance(x, ast.Call)]
            want = 'self._locks.%s(self._number, %s)' % (target, 'start, stop' if cls == 'RandomFile' else 'None, None')
            rep.ob('limits.file-wiring', '%s.%s -> Locks.%s' % (cls, meth, target), c == [want], repr(c), ctx.where(fn))


def variants(ctx):
    Va = mu.Variant

    def in_fn(f_name, f):
        return lambda tree: f(mu.find_def(tree, f_name))

    cur = 'start <= stop_1 and start_1 <= stop'
    return [
        mu.Variant('one-bound-locks-whole-file', 'break', FILES,
                   lambda tree: mu.replace_expr(mu.find_def(tree, 'Files._get_lock_limits'), mu.text_is('lock_start_rec is None and lock_stop_rec is None'), 'lock_start_rec is None or lock_stop_rec is None'),
                   expect='limits.whole-file-only-without-bounds'),
        Va('get-checks-lock-only-inside-file', 'break', DF, lambda tree: _lock_in_else(mu.find_def(tree, 'RandomFile.get')), expect='access.record-check-unconditional'),
        Va('endpoint-containment-only', 'break', DF,
           in_fn('Locks._try_record_lock', lambda fn: mu.replace_expr(fn, mu.text_is(cur), '(start >= start_1 and start <= stop_1) or (stop >= start_1 and stop <= stop_1)')),
           expect='overlap.predicate'),
        Va('strict-comparison', 'break', DF,
           in_fn('Locks._try_record_lock', lambda fn: mu.replace_expr(fn, mu.text_is(cur), 'start < stop_1 and start_1 < stop')), expect='overlap.predicate'),
        Va('one-sided', 'break', DF,
           in_fn('Locks._try_record_lock', lambda fn: mu.replace_expr(fn, mu.text_is(cur), 'start <= stop_1')), expect='overlap.predicate'),
        Va('whole-file-lock-ignored', 'break', DF,
           in_fn('Locks._try_record_lock', lambda fn: mu.replace_expr(fn, mu.text_is('stop_1 is None and start_1 is None or (%s)' % cur), cur)), expect='overlap'),
        Va('output-not-exclusive', 'break', DF,
           in_fn('Locks.open_file', lambda fn: mu.replace_expr(fn, mu.text_is("mode in (b'O', b'A') and already_open"), "mode == b'O' and already_open")), expect='open.output'),
        Va('acquire-adds-first', 'break', DF, in_fn('Locks.acquire_record_lock', _add_first), expect='acquire'),
        Va('acquire-allows-self', 'break', DF,
           in_fn('Locks.acquire_record_lock', lambda fn: mu.replace_expr(fn, mu.text_is('self._try_record_lock(number, start, stop, allow_self=False)'),
                                                                        'self._try_record_lock(number, start, stop, allow_self=True)')), expect='acquire'),
        Va('release-discards', 'break', DF,
           in_fn('Locks.release_record_lock', lambda fn: mu.replace_expr(fn, mu.text_is('this_file.lock_set.remove((start, stop))'), 'this_file.lock_set.discard((start, stop))')),
           expect='release'),
        Va('put-writes-before-check', 'break', DF, in_fn('RandomFile.put', _check_last), expect='access.record'),
        Va('get-checks-current-not-next', 'break', DF,
           in_fn('RandomFile.get', lambda fn: mu.replace_expr(fn, mu.text_is("self._locks.try_record_access(self._number, self._recpos + 1, self._recpos + 1, b'R')"),
                                                              "self._locks.try_record_access(self._number, self._recpos, self._recpos, b'R')")), expect='access.record'),
        Va('equivalent-overlap-spelling', 'neutral', DF,
           in_fn('Locks._try_record_lock', lambda fn: mu.replace_expr(fn, mu.text_is(cur), 'not (stop < start_1 or stop_1 < start)'))),
        Va('equivalent-overlap-spelling-2', 'neutral', DF,
           in_fn('Locks._try_record_lock', lambda fn: mu.replace_expr(fn, mu.text_is(cur), 'stop_1 >= start and stop >= start_1'))),
    ]


def _add_first(fn):
    a = [s for s in fn.body if 'lock_set.add' in norm(s)][0]
    t = [s for s in fn.body if norm(s) == 'this_file = self._locking_parameters[number]'][0]
    c = [s for s in fn.body if '_try_record_lock' in norm(s)][0]
    fn.body = [s for s in fn.body if s not in (a, t, c)] + [t, a, c]
    return True


def _check_last(fn):
    c = [s for s in fn.body if 'try_record_access' in norm(s)][0]
    fn.body.remove(c)
    fn.body.append(c)
    return True


def _lock_in_else(fn):
    chk = [st for st in fn.body if isinstance(st, ast.Expr) and 'try_record_access' in norm(st)]
    br = [st for st in fn.body if isinstance(st, ast.If) and norm(st.test) == 'self.eof()']
    if len(chk) != 1 or len(br) != 1:
        return False
    fn.body.remove(chk[0])
    br[0].orelse.insert(0, chk[0])
    return True

"""
C30 -- graphics never draws outside the viewport or the active page.

Decides:
 (i)   single gate: in display/graphics.py every pixel store goes through
       `self.graph_view[...] = ...`; no statement stores into a page's pixel
       buffer directly (`_apage`, `_pages[..]`, `.pixels[..]`) and no in-place
       method is applied to one -- an embedded positive example (a tiny source
       string with a raw `self._apage.pixels[y, x] = attr`) must be caught by
       the same matcher on every run;
 (ii)  the gate clips: GraphicsViewPort.__setitem__ stores only into
       self._pixels[self._convert_slice(index)]; _convert_slice returns, for a
       single pixel, the converted coordinate only under contains() and the
       empty slice otherwise; for ranges every start is clamped with
       max(., lower bound) and every stop with min(., upper bound + 1) before
       conversion; contains() is the closed-rectangle predicate (decided on all
       order types of (x, vx0, vx1) -- 13 weak orderings -- per axis);
       _convert_coords adds the viewport origin iff the viewport is relative;
 (iii) active page only: GraphicsViewPort._pixels is bound in __init__ and
       set_page only; Graphics.set_page rebinds the gate to
       self._pages[apagenum].pixels, nothing else calls graph_view.set_page;
 (iv)  text modes: every graphics statement callback (VIEW WINDOW PSET PRESET
       LINE CIRCLE PAINT PUT GET DRAW, and POINT(x,y)) tests is_text_mode and
       raises Illegal function call before it consumes an argument or changes
       any state;
 (v)   PUT requires the whole sprite inside the viewport (both corners
       contained) before it touches the screen.
"""
import ast

from ..source import norm, short, qualname
from ..flow import own_nodes
from ..orders import compare
from .. import mutate as mu

PROP = 'C30'
LEVEL = 'other'
TECHNIQUE = 'static analysis: single-gate ownership of pixel stores (with positive control), clamp structure of the gate, order-type check of contains(), guard dominance in callbacks'
EXPLANATION = __doc__

G = 'pcbasic/basic/display/graphics.py'
D = 'pcbasic/basic/display/display.py'
RAW = ('_apage', '_pages', '.pixels', '_pixels')
POSITIVE_EXAMPLE = '''
class Graphics(object):
    def pset_(self, args):
        self._apage.pixels[y, x] = attr
        self._pages[0].pixels.move(0, 1, 2, 3, 4, 5)
'''


def raw_pixel_stores(tree, exempt_classes=()):
    """Statements that write a pixel buffer without going through graph_view."""
    out = []
    for cls in [n for n in ast.walk(tree) if isinstance(n, ast.ClassDef)]:
        if cls.name in exempt_classes:
            continue
        for n in ast.walk(cls):
            tg = []
            if isinstance(n, ast.Assign):
                tg = n.targets
            elif isinstance(n, ast.AugAssign):
                tg = [n.target]
            for t in tg:
                if isinstance(t, ast.Subscript):
                    base = norm(t.value)
                    if any(r in base for r in RAW) and 'graph_view' not in base:
                        out.append(n)
            if isinstance(n, ast.Call) and isinstance(n.func, ast.Attribute) and n.func.attr in ('move', 'fill', 'clear', '__setitem__', 'put'):
                base = norm(n.func.value)
                if any(r in base for r in RAW):
                    out.append(n)
    return out


def _ancestors(node, stop):
    p = getattr(node, '_parent', None)
    while p is not None and p is not stop:
        yield p
        p = getattr(p, '_parent', None)


def _within(node, block):
    return any(node is x for st in block for x in ast.walk(st))


def check(ctx, rep):
    # ---- (i) ---------------------------------------------------------------------------
    pos = raw_pixel_stores(ast.parse(POSITIVE_EXAMPLE))
    if len(pos) != 2:
        rep.error('positive control for raw pixel stores matched %d of 2 constructs' % len(pos))
    m = ctx.mod(G)
    raws = raw_pixel_stores(m.tree, exempt_classes=('GraphicsViewPort',))
    rep.ob('gate.no-raw-pixel-store', 'graphics.py: no store into a page pixel buffer outside the viewport gate', not raws,
           '; '.join('%s: %s' % (qualname(r).split(':')[1], short(r, 50)) for r in raws[:3]), ctx.where(raws[0]) if raws else G)
    stores = []
    for fn in ctx.idx.functions(G):
        for n in own_nodes(fn):
            if isinstance(n, ast.Assign) and isinstance(n.targets[0], ast.Subscript) and norm(n.targets[0].value) == 'self.graph_view':
                stores.append((fn, n))
    rep.floor('gate.stores', len(stores), 12, 'pixel stores through graph_view')
    for fn, n in stores[:40]:
        rep.ob('gate.store-through-viewport', '%s: %s' % (fn.name, short(n, 60)), True)
    # a range store is clipped by slice arithmetic (_convert_slice clamps the start to the low bound and the stop
    # to the high bound): a stop that lies left of / above the viewport by more than the viewport's own offset comes
    # out negative and Python counts it from the far edge.  Corner coordinates that arrive from the statement (the
    # parameters of the drawing primitive) are therefore cut to the screen plus one pixel before they are used.
    n_cut = 0
    for fn, n in stores:
        params = set(a.arg for a in fn.args.args)
        used = sorted(set(x.id for sl in ast.walk(n.targets[0]) if isinstance(sl, ast.Slice) for x in ast.walk(sl) if isinstance(x, ast.Name) and x.id in params))
        for name in used:
            n_cut += 1
            cuts = [a for a in fn.body if isinstance(a, ast.Assign) and isinstance(a.value, ast.Call) and norm(a.value.func) == 'self.graph_view.cutoff_coord'
                    and name in [norm(e) for e in getattr(a.targets[0], 'elts', [a.targets[0]])] and name in [norm(e) for e in a.value.args] and a.lineno < n.lineno]
            rep.ob('clip.range-corners-cut-to-screen', '%s: `%s` is cut to the screen before %s' % (fn.name, name, short(n.targets[0], 44)), len(cuts) >= 1,
                   'a corner far off the low side of the viewport gives a negative slice stop: the store wraps round and fills pixels outside the viewport', ctx.where(n))
    rep.floor('clip.range-corners-cut-to-screen', n_cut, 4, 'statement coordinates used as range bounds')
    # SCREEN with the active page left out keeps the active page: every later graphics statement draws on it
    sc = ctx.fn(D + ':Display.screen')
    fls = ctx.flow(sc)
    dflt = [a for a in own_nodes(sc) if isinstance(a, ast.Assign) and norm(a.targets[0]) == 'new_apagenum']
    rep.floor('page.omitted-active-page-stays', len(dflt), 1, 'defaults for the active page in Display.screen')
    for a in dflt:
        pcjr_reset = isinstance(a.value, ast.Constant) and a.value.value == 0 and any('pcjr' in f.text and f.pol for f in fls.facts(a))
        rep.ob('page.omitted-active-page-stays', 'screen(): %s' % short(a, 50), pcjr_reset or (norm(a.value) == 'self.apagenum' and fls.knows(a, 'new_apagenum is None', True)),
               'SCREEN with the active page omitted moves the active page: graphics statements that follow draw on a page the program did not select', ctx.where(a))
    # VIEW draws its fill and its frame (the ring just outside the new viewport) only when the argument is there.  The
    # test has to see the argument as it arrived: _get_attr_index maps None to attribute 0
    sv = ctx.fn(G + ':Graphics._set_view')
    n_view = 0
    for name, drawer in (('fill', 'self._draw_box_filled'), ('border', 'self._draw_box')):
        for c in own_nodes(sv):
            if isinstance(c, ast.Call) and norm(c.func) == drawer:
                n_view += 1
                guards = [p_ for p_ in _ancestors(c, sv) if isinstance(p_, ast.If) and norm(p_.test) == '%s is not None' % name and _within(c, p_.body)]
                early = [short(a, 50) for g in guards for a in ast.walk(sv) if isinstance(a, ast.Assign) and name in [norm(e) for t in a.targets for e in getattr(t, 'elts', [t])]
                         and a.lineno < g.lineno]
                rep.ob('view.omitted-fill-and-border-draw-nothing', '_set_view: %s only if `%s` was given' % (short(c, 40), name), bool(guards) and not early,
                       ('the argument is replaced before it is tested (%s): an omitted one has become attribute 0' % early[0]) if early else 'drawn whether or not the argument was given',
                       ctx.where(c))
    rep.floor('view.omitted-fill-and-border-draw-nothing', n_view, 2, 'drawing calls of _set_view')
    # display.cls_ goes through the gate too
    cls_ = ctx.fn(D + ':Display.cls_')
    raws = [n for n in own_nodes(cls_) if isinstance(n, ast.Assign) and isinstance(n.targets[0], ast.Subscript) and 'pixels' in norm(n.targets[0].value)]
    rep.ob('gate.no-raw-pixel-store', 'CLS in graphics mode clears through the viewport gate', not raws and
           any(norm(n.targets[0]) == 'self.graphics.graph_view[:, :]' for n in own_nodes(cls_) if isinstance(n, ast.Assign)), '', ctx.where(cls_))
    # ---- (ii) --------------------------------------------------------------------------
    si = ctx.fn(G + ':GraphicsViewPort.__setitem__')
    body = [norm(s) for s in si.body if not (isinstance(s, ast.Expr) and isinstance(s.value, ast.Constant))]
    rep.ob('clip.setitem', '__setitem__ stores only into _pixels[_convert_slice(index)]', body == ['self._pixels[self._convert_slice(index)] = data'], repr(body), ctx.where(si))
    cs = ctx.fn(G + ':GraphicsViewPort._convert_slice')
    fl = ctx.flow(cs)
    rets = [r for r in own_nodes(cs) if isinstance(r, ast.Return)]
    kinds = {}
    single_blocks = [n for n in cs.body if isinstance(n, ast.If) and norm(n.test) == 'not isinstance(yslice, slice) and (not isinstance(xslice, slice))']
    if len(single_blocks) == 1:
        blk = single_blocks[0].body
        # expected: `if not self.contains(xslice, yslice): return empty` ; convert ; return
        g = [s_ for s_ in blk if isinstance(s_, ast.If)]
        if g and norm(g[0].test) == 'not self.contains(xslice, yslice)' and len(g[0].body) == 1 and isinstance(g[0].body[0], ast.Return) \
                and norm(g[0].body[0].value) == '(slice(0, 0), slice(0, 0))' and blk.index(g[0]) == 0:
            kinds['empty'] = True
        last = blk[-1]
        conv = [s_ for s_ in blk if isinstance(s_, ast.Assign) and norm(s_) == 'xslice, yslice = self._convert_coords(xslice, yslice)']
        if isinstance(last, ast.Return) and norm(last.value) == '(yslice, xslice)' and len(conv) == 1 and kinds.get('empty'):
            kinds['single'] = True
    tail = cs.body[-1]
    if isinstance(tail, ast.Return) and norm(tail.value) == '(yslice, xslice)':
        kinds['range'] = True
    rep.ob('clip.single-pixel', 'a single pixel is stored only if contains(x, y); otherwise the empty slice', kinds.get('empty') is True and kinds.get('single') is True,
           repr(kinds), ctx.where(cs))
    rep.ob('clip.returns', '_convert_slice has exactly the three exits (empty, single, range)', len(rets) == 3 and set(kinds) == {'empty', 'single', 'range'}, repr(kinds), ctx.where(cs))
    assigns = [(norm(a.targets[0]), norm(a.value), a.lineno) for a in own_nodes(cs) if isinstance(a, ast.Assign)]
    clamp = {'x0': 'max(x0, xmin)', 'y0': 'max(y0, ymin)', 'x1': 'min(x1, xmax + 1)', 'y1': 'min(y1, ymax + 1)'}
    conv_line = min([l for t, v, l in assigns if v.startswith('self._convert_coords(x0')] + [10 ** 9])
    for var, want in sorted(clamp.items()):
        hits = [l for t, v, l in assigns if t == var and v == want]
        later = [v for t, v, l in assigns if t == var and hits and l > hits[0] and l < conv_line]
        rep.ob('clip.range-clamped', 'range bound %s is clamped with %s just before conversion' % (var, want), len(hits) == 1 and not later and hits[0] < conv_line,
               repr([(t, v) for t, v, l in assigns if t == var]), ctx.where(cs))
    bnd = [v for t, v, l in assigns if t == '(xmin, ymin, xmax, ymax)']
    rep.ob('clip.bounds-source', 'clamp bounds come from get_bounds()', bnd == ['self.get_bounds()'], repr(bnd), ctx.where(cs))
    built = [(t, v) for t, v, l in assigns if t in ('yslice', 'xslice') and v.startswith('slice(') and l > conv_line]
    rep.ob('clip.rebuilt-from-clamped', 'the returned slices are rebuilt from the clamped, converted bounds', sorted(built) == [('xslice', 'slice(x0, x1)'), ('yslice', 'slice(y0, y1)')], repr(built), ctx.where(cs))
    co = ctx.fn(G + ':GraphicsViewPort.contains')
    r = [x for x in own_nodes(co) if isinstance(x, ast.Return)][0].value
    ok = True
    n_types = 0
    try:
        n_types, bad = compare(r, 'vx0 <= x and x <= vx1 and vy0 <= y and y <= vy1', ['x', 'vx0', 'vx1', 'y', 'vy0', 'vy1'])
        ok = not bad and n_types == 4683
    except Exception as e:
        ok = False
    rep.ob('clip.contains-is-closed-rectangle', 'contains(x, y) == (vx0 <= x <= vx1 and vy0 <= y <= vy1) on all %d order types' % n_types, ok, norm(r), ctx.where(co))
    cb = [v for a in own_nodes(co) if isinstance(a, ast.Assign) for v in [norm(a.value)]]
    rep.ob('clip.contains-is-closed-rectangle', 'contains() tests against get_bounds()', cb == ['self.get_bounds()'], repr(cb), ctx.where(co))
    cc = ctx.fn(G + ':GraphicsViewPort._convert_coords')
    fl2 = ctx.flow(cc)
    rs = dict((norm(x.value), fl2.knows(x, 'self._absolute', True)) for x in own_nodes(cc) if isinstance(x, ast.Return))
    rep.ob('clip.coordinate-conversion', 'viewport-relative coordinates are offset by the viewport origin; absolute ones are not',
           rs == {'(x, y)': True, '(x + self._rect[0], y + self._rect[1])': False}, repr(rs), ctx.where(cc))
    gb = ctx.fn(G + ':GraphicsViewPort.get_bounds')
    fl3 = ctx.flow(gb)
    rs = dict((norm(x.value), fl3.knows(x, 'self._absolute', True)) for x in own_nodes(gb) if isinstance(x, ast.Return))
    rep.ob('clip.bounds', 'bounds are the rectangle (absolute) or 0..width-1, 0..height-1 (relative)',
           rs == {'self._rect': True, '(0, 0, self.width - 1, self.height - 1)': False}, repr(rs), ctx.where(gb))
    # ---- (iii) -------------------------------------------------------------------------
    writers = []
    for fn in ctx.idx.functions('pcbasic/basic/'):
        for n in own_nodes(fn):
            if isinstance(n, ast.Assign):
                for t in n.targets:
                    if isinstance(t, ast.Attribute) and t.attr == '_pixels' and 'graph_view' in norm(t.value) or \
                            (isinstance(t, ast.Attribute) and t.attr == '_pixels' and qualname(fn).split(':')[1].startswith('GraphicsViewPort.')):
                        writers.append(qualname(fn).split(':')[1])
    rep.ob('page.gate-buffer-writers', 'the gate buffer is bound only in GraphicsViewPort.__init__ / set_page',
           sorted(writers) == ['GraphicsViewPort.__init__', 'GraphicsViewPort.set_page'], repr(writers), G)
    callers = []
    for fn in ctx.idx.functions('pcbasic/basic/'):
        for c in own_nodes(fn):
            if isinstance(c, ast.Call) and isinstance(c.func, ast.Attribute) and c.func.attr == 'set_page' and 'graph_view' in norm(c.func.value):
                callers.append((qualname(fn).split(':')[1], norm(c.args[0]) if c.args else ''))
    rep.ob('page.rebound-to-active-page', 'the gate is rebound only by Graphics.set_page, to the active page pixels',
           callers == [('Graphics.set_page', 'self._apage.pixels')], repr(callers), G)
    # rebinding the gate must work whatever the viewport is: nothing in GraphicsViewPort.set_page depends on the clip
    # rectangle (an assert comparing the page with the viewport size failed for every VIEW smaller than the screen)
    gsp = ctx.fn(G + ':GraphicsViewPort.set_page')
    dep = [norm(a) for a in own_nodes(gsp) if isinstance(a, ast.Attribute) and norm(a) in ('self.width', 'self.height', 'self._rect', 'self._active', 'self._absolute')]
    rep.ob('page.rebound-whatever-the-viewport', 'GraphicsViewPort.set_page does not depend on the clip rectangle', not dep,
           'set_page reads %s: switching the active page while a VIEW is set fails (AssertionError) after the display has recorded the new page' % dep, ctx.where(gsp))
    # PCOPY copies page contents; the pages stay separate objects: copy_from stores INTO this page's own containers (slice
    # stores) and rebinds none of them to the source's -- otherwise drawing on the active page also changes the copy
    cf = ctx.fn('pcbasic/basic/display/buffers.py:VideoBuffer.copy_from')
    n_cp = 0
    for a in own_nodes(cf):
        if isinstance(a, ast.Assign) and any(isinstance(x, ast.Name) and x.id in ('src', 'src_row') for x in ast.walk(a.value)):
            n_cp += 1
            t = a.targets[0]
            scalar = isinstance(t, ast.Attribute) and t.attr in ('length', 'wrap')
            rep.ob('pcopy.pages-stay-separate', 'copy_from: %s' % short(a, 50), isinstance(t, ast.Subscript) or scalar,
                   'a container of this page is rebound to the source page`s object: from then on both pages share it', ctx.where(a))
    rep.floor('pcopy.pages-stay-separate', n_cp, 5, 'copies from the source page')
    sp = ctx.fn(G + ':Graphics.set_page')
    st = [norm(s) for s in sp.body]
    rep.ob('page.rebound-to-active-page', 'active page = self._pages[apagenum]', 'self._apage = self._pages[apagenum]' in st and
           st.index('self._apage = self._pages[apagenum]') < st.index('self.graph_view.set_page(self._apage.pixels)'), repr(st), ctx.where(sp))
    # a mode switch replaces the page objects while the page *number* may stay the same: set_page must rebind the gate
    # unconditionally (no early return on an unchanged number)
    spr = [r for r in own_nodes(sp) if isinstance(r, ast.Return)]
    rebind = [c for c in own_nodes(sp) if isinstance(c, ast.Call) and norm(c.func) == 'self.graph_view.set_page']
    rep.ob('page.rebound-on-every-call', 'Graphics.set_page rebinds the gate on every call', not spr and len(rebind) == 1 and isinstance(rebind[0]._parent, ast.Expr)
           and rebind[0]._parent in sp.body, 'set_page can return without rebinding: after SCREEN 7,,1,1 : SCREEN 8 the gate still points at a page of the old mode', ctx.where(sp))
    # the page number handed to Graphics.set_page is the one recorded as the *active* page
    n_sp = 0
    for fn in ctx.idx.functions('pcbasic/basic/display/'):
        for c in own_nodes(fn):
            if isinstance(c, ast.Call) and isinstance(c.func, ast.Attribute) and c.func.attr == 'set_page' and norm(c.func.value).endswith('graphics') and len(c.args) == 1:
                n_sp += 1
                arg = norm(c.args[0])
                recorded = [norm(a.value) for a in own_nodes(fn) if isinstance(a, ast.Assign) and norm(a.targets[0]) == 'self.apagenum']
                rep.ob('page.graphics-follow-active-page', '%s: graphics.set_page(%s) receives the active page' % (qualname(fn).split(':')[1], arg),
                       arg == 'self.apagenum' or arg in recorded,
                       'drawing statements would go to page `%s` while the active page is %s' % (arg, recorded or 'self.apagenum'), ctx.where(c))
    rep.floor('page.graphics-follow-active-page', n_sp, 1, 'calls of Graphics.set_page')
    # ---- (iv) --------------------------------------------------------------------------
    cbs = ['view_', 'window_', '_pset_preset', 'line_', 'circle_', 'paint_', 'put_', 'get_', 'draw_']
    for name in cbs:
        fn = ctx.fn('%s:Graphics.%s' % (G, name))
        first = [s for s in fn.body if not (isinstance(s, ast.Expr) and isinstance(s.value, ast.Constant))][0]
        ok = isinstance(first, ast.If) and norm(first.test) == 'self._mode.is_text_mode' and ctx.basic_error_code(first.body[0]) == 'ILLEGAL_FUNCTION_CALL'
        rep.ob('textmode.ifc-first', 'Graphics.%s raises IFC in text mode before anything else' % name, ok, short(first, 60), ctx.where(fn))
    for name, inner in (('pset_', 'self._pset_preset'), ('preset_', 'self._pset_preset')):
        fn = ctx.fn('%s:Graphics.%s' % (G, name))
        st = [norm(s.value.func) for s in fn.body if isinstance(s, ast.Expr) and isinstance(s.value, ast.Call)]
        rep.ob('textmode.ifc-first', 'Graphics.%s delegates to the guarded helper' % name, st == [inner], repr(st), ctx.where(fn))
    pt = ctx.fn(G + ':Graphics.point_')
    flp = ctx.flow(pt)
    rd = [n for n in own_nodes(pt) if isinstance(n, ast.Subscript) and norm(n.value) == 'self.graph_view']
    ifc = [r for r, c in ctx.raises_in(pt) if c == 'ILLEGAL_FUNCTION_CALL' and flp.knows(r, 'self._mode.is_text_mode', True)]
    rep.ob('textmode.ifc-first', 'POINT(x, y) raises IFC in text mode before reading the screen', len(ifc) == 1 and all(flp.knows(n, 'self._mode.is_text_mode', False) for n in rd) and bool(rd),
           '', ctx.where(pt))
    # ---- (v) ---------------------------------------------------------------------------
    put = ctx.fn(G + ':Graphics.put_')
    flq = ctx.flow(put)
    st = [n for n in own_nodes(put) if isinstance(n, ast.Assign) and norm(n.targets[0]).startswith('self.graph_view[')]
    ok = len(st) == 1 and flq.knows(st[0], 'not self.graph_view.contains(x0, y0)', False) and flq.knows(st[0], 'not self.graph_view.contains(x1, y1)', False)
    rep.ob('put.whole-sprite-inside', 'PUT stores only if both sprite corners are inside the viewport', ok, '', ctx.where(put))
    x1 = [norm(a.value) for a in own_nodes(put) if isinstance(a, ast.Assign) and norm(a.targets[0]) == '(x1, y1)']
    rep.ob('put.whole-sprite-inside', 'the far corner is origin + sprite size - 1', x1 == ['(x0 + sprite.width - 1, y0 + sprite.height - 1)'], repr(x1), ctx.where(put))


def variants(ctx):
    Va = mu.Variant

    def in_fn(f_name, f):
        return lambda tree: f(mu.find_def(tree, f_name))

    return [
        Va('filled-box-corners-not-cut', 'break', G, in_fn('Graphics._draw_box_filled', lambda fn: mu.remove_stmt(fn, mu.stmt_has('cutoff_coord(x1, y1)', ast.Assign))),
           expect='clip.range-corners-cut-to-screen'),
        Va('omitted-active-page-follows-visible-page', 'break', D, in_fn('Display.screen', lambda fn: mu.replace_stmt(fn, mu.text_is('new_apagenum = self.apagenum'), 'new_apagenum = self.vpagenum')),
           expect='page.omitted-active-page-stays'),
        Va('view-converts-omitted-arguments-first', 'break', G, in_fn('Graphics._set_view', lambda fn: mu.insert_first(fn, 'fill = self._get_attr_index(fill)\nborder = self._get_attr_index(border)')),
           expect='view.omitted-fill-and-border-draw-nothing'),
        mu.Variant('pcopy-shares-the-pixel-matrix', 'break', 'pcbasic/basic/display/buffers.py',
                   lambda tree: mu.replace_stmt(mu.find_def(tree, 'VideoBuffer.copy_from'), mu.text_is('self._pixels[:, :] = src._pixels'), 'self._pixels = src._pixels'),
                   expect='pcopy.pages-stay-separate'),
        mu.Variant('page-switch-asserts-viewport-size', 'break', G,
                   lambda tree: mu.replace_expr(mu.find_def(tree, 'GraphicsViewPort.set_page'), mu.text_is('self._max_width'), 'self.width'), expect='page.rebound-whatever-the-viewport'),
        Va('set-page-skips-unchanged-number', 'break', G,
           lambda tree: mu.insert_first(mu.find_def(tree, 'Graphics.set_page'), 'if apagenum == getattr(self, "_apagenum", None):\n    return'), expect='page.rebound-on-every'),
        Va('graphics-follow-visible-page', 'break', D,
           lambda tree: mu.replace_expr(mu.find_def(tree, 'Display.set_page'), mu.text_is('self.graphics.set_page(new_apagenum)'), 'self.graphics.set_page(new_vpagenum)'), expect='page.graphics-follow'),
        Va('pset-writes-page-directly', 'break', G,
           in_fn('Graphics._pset_preset', lambda fn: mu.replace_stmt(fn, mu.text_is('self.graph_view[y, x] = attr'), 'self._apage.pixels[y, x] = attr')), expect='gate.no-raw'),
        Va('box-fill-bypasses-gate', 'break', G,
           in_fn('Graphics._draw_box_filled', lambda fn: mu.replace_stmt(fn, mu.stmt_has('self.graph_view[y0:y1 + 1, x0:x1 + 1]', ast.Assign),
                                                                        'self._pages[self._apagenum].pixels[y0:y1 + 1, x0:x1 + 1] = attr')), expect='gate.no-raw'),
        Va('single-pixel-unclipped', 'break', G,
           in_fn('GraphicsViewPort._convert_slice', lambda fn: mu.remove_stmt(fn, lambda st: isinstance(st, ast.If) and norm(st.test) == 'not self.contains(xslice, yslice)')),
           expect='clip.single-pixel'),
        Va('range-stop-unclamped', 'break', G,
           in_fn('GraphicsViewPort._convert_slice', lambda fn: mu.remove_stmt(fn, mu.text_is('x1 = min(x1, xmax + 1)'))), expect='clip.range-clamped'),
        Va('range-start-clamped-to-zero', 'break', G,
           in_fn('GraphicsViewPort._convert_slice', lambda fn: mu.replace_stmt(fn, mu.text_is('y0 = max(y0, ymin)'), 'y0 = max(y0, 0)')), expect='clip.range-clamped'),
        Va('contains-open-on-right', 'break', G,
           in_fn('GraphicsViewPort.contains', lambda fn: mu.replace_expr(fn, mu.text_is('vx0 <= x <= vx1'), 'vx0 <= x <= vx1 + 1')), expect='clip.contains'),
        Va('contains-one-axis', 'break', G,
           in_fn('GraphicsViewPort.contains', lambda fn: mu.replace_expr(fn, mu.text_is('vx0 <= x <= vx1 and vy0 <= y <= vy1'), 'vx0 <= x <= vx1 and vy0 <= y')), expect='clip.contains'),
        Va('gate-follows-visible-page', 'break', D,
           lambda tree: mu.append_last(mu.find_def(tree, 'Display.cls_'), 'self.graphics.graph_view.set_page(self.pages[self.vpagenum].pixels)'), expect='page.rebound'),
        Va('line-no-text-mode-check', 'break', G,
           in_fn('Graphics.line_', lambda fn: mu.remove_stmt(fn, lambda st: isinstance(st, ast.If) and norm(st.test) == 'self._mode.is_text_mode')), expect='textmode'),
        Va('draw-check-after-parse', 'break', G, in_fn('Graphics.draw_', _guard_last), expect='textmode'),
        Va('put-checks-one-corner', 'break', G,
           in_fn('Graphics.put_', lambda fn: mu.remove_stmt(fn, mu.text_is('error.throw_if(not self.graph_view.contains(x1, y1))'))), expect='put.whole'),
        Va('contains-rewritten', 'neutral', G,
           in_fn('GraphicsViewPort.contains', lambda fn: mu.replace_expr(fn, mu.text_is('vx0 <= x <= vx1 and vy0 <= y <= vy1'), 'x >= vx0 and vx1 >= x and (not (y < vy0 or y > vy1))'))),
    ]


def _guard_last(fn):
    g = [s for s in fn.body if isinstance(s, ast.If) and norm(s.test) == 'self._mode.is_text_mode'][0]
    fn.body.remove(g)
    fn.body.insert(2, g)
    return True

"""
C19 -- structured control flow follows its reference semantics (structural half).

Decides:
 * error sites: NEXT without FOR, FOR without NEXT, WHILE without WEND, WEND
   without WHILE, RETURN without GOSUB are each raised in the handler the
   statement names, under the condition that names it, and nowhere else in the
   interpreter;
 * stack discipline: for_ pushes exactly one frame; iterate_loop pops exactly
   when the loop ends (and truncates frames above the matching one); return_
   pops before it jumps; jump_sub pushes only after a successful jump; while_
   pushes once, _check_while_condition pops when the condition is false, wend_
   discards frames that are not its own;
 * ON n GOTO/GOSUB: the jump happens only when i == onvar-1, the selector is
   range-checked to 0..255, fall-through otherwise;
 * loop direction: the zero-trip test in for_ and the termination test in
   iterate_loop both compare with gt in the direction chosen from the step's
   sign (counter > stop for a positive step, stop > counter for a negative one)
   and use the same recorded sign;
 * IF: the branch is chosen on `not to_single(cond).is_zero()` and a line
   number after THEN/ELSE jumps.
   A zero step has no direction; a counter that does not move has "passed the
   end" only if it started beyond it, so both tests must put sign 0 on the
   ascending side (sign >= 0), and above all must agree with each other: on
   the pinned tree for_ used >= 0 and iterate_loop > 0, so FOR I=1 TO 5 STEP 0
   ran once and left the loop (repaired in /repo f70633e0).
Not decided: visit order of whole programs.
"""
import ast

from ..source import norm, short, qualname
from ..flow import own_nodes
from ..source import AnalysisError
from .. import mutate as mu

PROP = 'C19'
LEVEL = 'other'
TECHNIQUE = 'static analysis: error-site table, push/pop pairing under path facts, comparison-direction agreement between sibling tests'
EXPLANATION = __doc__

INTERP = 'pcbasic/basic/interpreter.py'
STMT = 'pcbasic/basic/parser/statements.py'
CS = 'pcbasic/basic/base/codestream.py'

ERROR_SITES = {
    'NEXT_WITHOUT_FOR': {'Interpreter._find_next', 'Interpreter.iterate_loop'},
    'FOR_WITHOUT_NEXT': {'Interpreter._find_next'},
    'WHILE_WITHOUT_WEND': {'Interpreter._find_wend'},
    'WEND_WITHOUT_WHILE': {'Interpreter.wend_'},
    'RETURN_WITHOUT_GOSUB': {'Interpreter.return_'},
}


def _stack_ops(fn, stack):
    ops = []
    for n in own_nodes(fn):
        if isinstance(n, ast.Call) and isinstance(n.func, ast.Attribute) and norm(n.func.value) == 'self.' + stack \
                and n.func.attr in ('append', 'pop'):
            ops.append((n.func.attr, n))
        if isinstance(n, ast.Assign) and norm(n.targets[0]) == 'self.' + stack:
            ops.append(('assign', n))
    return ops


def _ascending_for(ctx, test, sign_text):
    """Truth of a direction test for sign = 1, 0, -1 (the sign expression is replaced by the constant and folded)."""
    import copy
    out = {}
    for v in (1, 0, -1):
        t = copy.deepcopy(test)

        class R(ast.NodeTransformer):
            def generic_visit(self, node):
                if isinstance(node, ast.expr) and norm(node) == sign_text:
                    return ast.Constant(value=v)
                return super(R, self).generic_visit(node)
        t = R().visit(t)
        try:
            out[v] = bool(eval(compile(ast.fix_missing_locations(ast.Expression(body=t)), '<direction>', 'eval'), {'__builtins__': {}}, {}))
        except Exception:
            out[v] = None
    return out


def check(ctx, rep):
    from . import c14 as _c14, _share as _sh19
    _sh19.share(ctx, rep, _c14, ('reference-kinds.',), 'a line number after THEN / ELSE / GOTO / GOSUB is stored as a line-number token: IF c THEN 100 ELSE 200 jumps to 200 when c is false')
    from ..sigils import check as _sigils
    _sigils(ctx, rep, ['pcbasic/basic/interpreter.py:Interpreter.for_'], 2)
    # ---- error sites --------------------------------------------------------
    found = {}
    for fn in ctx.idx.functions('pcbasic/basic/'):
        for node, code, cond in ctx.throwers(fn):
            if code in ERROR_SITES:
                found.setdefault(code, set()).add(qualname(fn).split(':')[1])
    for code, want in sorted(ERROR_SITES.items()):
        rep.ob('errors.sites', '%s raised exactly in %s' % (code, sorted(want)), found.get(code) == want, repr(sorted(found.get(code, []))), INTERP)
    fnx = ctx.fn(INTERP + ':Interpreter._find_next')
    fl = ctx.flow(fnx)
    for r, c in ctx.raises_in(fnx):
        facts = [f.text for f in fl.facts(r) if f.pol]
        if c == 'FOR_WITHOUT_NEXT':
            rep.ob('errors.condition', 'FOR without NEXT iff no NEXT follows the block', "ins.skip_blank() not in (tk.NEXT, b',')" in facts, repr(facts), ctx.where(r))
        if c == 'NEXT_WITHOUT_FOR':
            rep.ob('errors.condition', 'NEXT without FOR iff the NEXT names another variable', '(comma or varname2) and varname2 != varname' in facts, repr(facts), ctx.where(r))
    fw = ctx.fn(INTERP + ':Interpreter._find_wend')
    fl = ctx.flow(fw)
    for r, c in ctx.raises_in(fw):
        rep.ob('errors.condition', 'WHILE without WEND iff the block is not closed by WEND', fl.knows(r, 'ins.read(1) != tk.WEND', True), '', ctx.where(r))
    wd = ctx.fn(INTERP + ':Interpreter.wend_')
    fl = ctx.flow(wd)
    for r, c in ctx.raises_in(wd):
        rep.ob('errors.condition', 'WEND without WHILE iff the while stack is empty', fl.knows(r, 'not self.while_stack', True), '', ctx.where(r))
    rt = ctx.fn(INTERP + ':Interpreter.return_')
    flr = ctx.flow(rt)
    for r, c in ctx.raises_in(rt):
        h = [o for k, o in flr.context(r) if k == 'handler']
        rep.ob('errors.condition', 'RETURN without GOSUB iff popping the empty gosub stack fails',
               len(h) == 1 and norm(h[0].type) == 'IndexError' and 'self.gosub_stack.pop()' in norm(h[0]._parent.body), '', ctx.where(r))
    # ---- FOR stack ----------------------------------------------------------
    for_ = ctx.fn(INTERP + ':Interpreter.for_')
    ops = _stack_ops(for_, 'for_stack')
    rep.ob('for.push-once', 'for_ pushes exactly one frame', [o for o, _ in ops] == ['append'], repr([o for o, _ in ops]), ctx.where(for_))
    push = ops[0][1] if ops else None
    if push is not None:
        elts = [norm(e) for e in push.args[0].elts]
        rep.ob('for.frame', 'frame = (varname, stop, step, step.sign(), forpos, nextpos)',
               elts == ['varname', 'stop', 'step', 'step.sign()', 'forpos', 'nextpos'], repr(elts), ctx.where(push))
        # variable initialised before push; NEXT located before anything is changed
        def first_stmt_calling(name):
            for i, st in enumerate(for_.body):
                if any(isinstance(c, ast.Call) and norm(c.func) == name for c in own_nodes(st)):
                    return i
            return None
        order = [first_stmt_calling('self._find_next'), first_stmt_calling('self._scalars.set'), first_stmt_calling('self.for_stack.append')]
        ok = None not in order and order == sorted(order) and len(set(order)) == 3
        rep.ob('for.order', 'find NEXT, then initialise the variable, then push', ok, '', ctx.where(for_))
        # the limit and the step are fixed when FOR runs: what goes into the frame is a copy, not a view on a variable
        # (values.to_type returns its argument unchanged when the type already fits, and a variable reads as a view)
        n_copy = 0
        for e in push.args[0].elts:
            if not isinstance(e, ast.Name):
                continue
            for a in own_nodes(for_):
                if isinstance(a, ast.Assign) and norm(a.targets[0]) == e.id and any(
                        isinstance(c, ast.Call) and norm(c.func) == 'values.to_type' for c in ast.walk(a.value)):
                    n_copy += 1
                    v = a.value
                    rep.ob('for.frame-holds-copies', 'for_: `%s` in the frame is a copy of the converted argument' % e.id,
                           isinstance(v, ast.Call) and isinstance(v.func, ast.Attribute) and v.func.attr == 'clone' and not v.args,
                           'the frame would alias the variable named as limit or step: assigning to it in the body moves the end of the loop (%s)' % short(a, 60),
                           ctx.where(a))
        rep.floor('for.frame-holds-copies', n_copy, 2, 'converted arguments stored in the frame')
    it = ctx.fn(INTERP + ':Interpreter.iterate_loop')
    fl = ctx.flow(it)
    ops = _stack_ops(it, 'for_stack')
    pops = [n for o, n in ops if o == 'pop']
    rep.ob('for.pop-on-end', 'iterate_loop pops exactly when loop_ends', len(pops) == 1 and fl.knows(pops[0], 'loop_ends', True), '', ctx.where(it))
    back = [n for n in own_nodes(it) if isinstance(n, ast.Call) and norm(n) == 'ins.seek(forpos)']
    rep.ob('for.repeat-otherwise', 'iterate_loop jumps back to the loop body iff not loop_ends', len(back) == 1 and fl.knows(back[0], 'loop_ends', False), '', ctx.where(it))
    trunc = [n for o, n in ops if o == 'assign']
    rep.ob('for.truncate-inner-frames', 'frames above the matching NEXT record are dropped',
           len(trunc) == 1 and norm(trunc[0].value) == 'self.for_stack[:len(self.for_stack) - depth]' and fl.knows(trunc[0], 'pos == nextpos', True),
           '', ctx.where(it))
    rets = [norm(r.value) for r in own_nodes(it) if isinstance(r, ast.Return)]
    rep.ob('for.iterate-result', 'iterate_loop reports whether the loop continues', rets == ['not loop_ends'], repr(rets), ctx.where(it))
    # direction agreement
    zero_trip = [n for n in own_nodes(for_) if isinstance(n, ast.If) and isinstance(n.test, ast.IfExp)]
    ok = False
    if len(zero_trip) == 1:
        t = zero_trip[0].test
        ok = norm(t.body) == 'start.gt(stop)' and norm(t.orelse) == 'stop.gt(start)' and norm(t.test) in ('step.sign() >= 0', 'step.sign() > 0')
        rep.ob('direction.zero-step', 'for_: a zero step is tested like an ascending one (skip only if start > stop)',
               _ascending_for(ctx, t.test, 'step.sign()') == {1: True, 0: True, -1: False}, norm(t.test), ctx.where(for_))
    rep.ob('direction.zero-trip', 'for_: skip the body iff start is past stop in the step direction', ok,
           norm(zero_trip[0].test) if zero_trip else 'none', ctx.where(for_))
    if zero_trip:
        unpack = [a for a in own_nodes(for_) if isinstance(a, ast.Assign) and isinstance(a.value, ast.Call) and norm(a.value.func) == 'self._find_next'
                  and isinstance(a.targets[0], ast.Tuple) and len(a.targets[0].elts) == 2]
        nextname = norm(unpack[0].targets[0].elts[1]) if unpack else '?'
        called = [c for st in zero_trip[0].body for c in own_nodes(st) if isinstance(c, ast.Call)]
        shape = [(c.func.attr if isinstance(c.func, ast.Attribute) else norm(c.func), [norm(a) for a in c.args]) for c in called]
        rep.ob('direction.zero-trip', 'empty loop jumps to NEXT and iterates once to unwind',
               shape[:2] == [('seek', [nextname]), ('iterate_loop', [])], repr(shape), ctx.where(zero_trip[0]))
        # ... and then goes on with the rest of a NEXT list (NEXT J, I), stopping at the first loop that continues
        rest = [w for st in zero_trip[0].body for w in own_nodes(st) if isinstance(w, ast.While)]
        okr = len(rest) == 1 and norm(rest[0].test) == "ins.skip_blank_read_if((b',',))" and len(rest[0].body) == 1 and isinstance(rest[0].body[0], ast.If) \
            and norm(rest[0].body[0].test) == 'self.iterate_loop(self.parser.parse_name(ins))' and [type(x).__name__ for x in rest[0].body[0].body] == ['Break']
        rep.ob('direction.zero-trip-next-list', 'an empty loop closed by NEXT with a variable list iterates the remaining variables as NEXT does', okr,
               'the rest of the NEXT list is left unparsed: FOR I.. FOR J=2 TO 1 .. NEXT J,I ends in Syntax error', ctx.where(zero_trip[0]))
    le = [n for n in own_nodes(it) if isinstance(n, ast.Assign) and norm(n.targets[0]) == 'loop_ends']
    ok = False
    if len(le) == 1 and isinstance(le[0].value, ast.IfExp):
        t = le[0].value
        ok = norm(t.body) == 'counter_view.gt(stop)' and norm(t.orelse) == 'stop.gt(counter_view)' and norm(t.test) in ('sgn > 0', 'sgn >= 0')
        rep.ob('direction.zero-step', 'iterate_loop: a zero step is tested like an ascending one (the loop ends only if counter > stop)',
               _ascending_for(ctx, t.test, 'sgn') == {1: True, 0: True, -1: False}, norm(t.test), ctx.where(it))
    rep.ob('direction.termination', 'iterate_loop: ends iff counter is past stop in the step direction', ok, short(le[0]) if le else 'none', ctx.where(it))
    unp = [n for n in own_nodes(it) if isinstance(n, ast.Assign) and isinstance(n.targets[0], ast.Tuple) and 'self.for_stack[' in norm(n.value)]
    rep.ob('direction.same-sign-record', 'iterate_loop unpacks the frame in the order for_ packed it',
           len(unp) == 1 and [norm(e) for e in unp[0].targets[0].elts] == ['varname2', 'stop', 'step', 'sgn', 'forpos', 'nextpos'], '', ctx.where(it))
    # ---- nesting counters ----------------------------------------------------------------
    # ELSE matching in a single-line IF and FOR/NEXT (WHILE/WEND) block skipping both count nesting with a local
    # counter that starts at 0: an opener adds one; a closer takes one off *iff the counter is above its initial
    # value* and otherwise is the closer that was looked for
    n_counters = 0
    for spec, counter in ((STMT + ':Parser._parse_if', 'nesting_level'), (CS + ':TokenisedStream.skip_block', 'stack')):
        fn = ctx.fn(spec)
        flc = ctx.flow(fn)
        inits = [a for a in own_nodes(fn) if isinstance(a, ast.Assign) and norm(a.targets[0]) == counter]
        ups = [a for a in own_nodes(fn) if isinstance(a, ast.AugAssign) and norm(a.target) == counter]
        ok0 = len(inits) == 1 and norm(inits[0].value) == '0' and all(norm(a.value) == '1' and isinstance(a.op, (ast.Add, ast.Sub)) for a in ups)
        rep.ob('nesting.counter-shape', '%s: `%s` starts at 0 and moves in steps of one' % (fn.name, counter), ok0 and len(ups) >= 2, '', ctx.where(fn))
        for a in ups:
            if isinstance(a.op, ast.Sub):
                n_counters += 1
                facts = dict((f.text, f.pol) for f in flc.facts(a))
                ok = facts.get('%s > 0' % counter) is True or facts.get('%s <= 0' % counter) is False
                rep.ob('nesting.closer-threshold', '%s: `%s -= 1` happens exactly when the counter is above 0' % (fn.name, counter), ok,
                       'guarded by %s: a closer of an inner block is taken for the one that ends the outer block (or the reverse)' % sorted(
                           k for k in facts if counter in k), ctx.where(a))
    rep.floor('nesting.closer-threshold', n_counters, 2, 'decrements of nesting counters')
    sb = ctx.fn(CS + ':TokenisedStream.skip_block')
    n_reads = 0
    for blk_owner in ast.walk(sb):
        for fld in ('body', 'orelse'):
            b = getattr(blk_owner, fld, None)
            if not isinstance(b, list):
                continue
            for i, st in enumerate(b):
                if isinstance(st, ast.Expr) and norm(st.value) == 'self.read(1)':
                    n_reads += 1
                    nxt = b[i + 1] if i + 1 < len(b) else None
                    rep.ob('nesting.consume-and-count', 'skip_block: a consumed block token is counted (read(1) is followed by a counter step)',
                           isinstance(nxt, ast.AugAssign) and norm(nxt.target) == 'stack',
                           'the token is consumed but the nesting count is not updated: a later closer is attributed to the wrong block', ctx.where(st))
    rep.floor('nesting.consume-and-count', n_reads, 3, 'consumed block tokens')
    # ---- GOSUB stack --------------------------------------------------------
    ops = _stack_ops(rt, 'gosub_stack')
    pops = [n for o, n in ops if o == 'pop']
    jumps = [n for n in own_nodes(rt) if isinstance(n, ast.Call) and norm(n.func) in ('self.jump', 'self.set_pointer')]
    rep.ob('gosub.pop-before-jump', 'return_ pops the frame before moving the pointer',
           len(pops) == 1 and bool(jumps) and all(pops[0].lineno < j.lineno for j in jumps), '', ctx.where(rt))
    back = [n for n in own_nodes(rt) if isinstance(n, ast.Call) and norm(n) == 'self.set_pointer(orig_runmode, pos)']
    rep.ob('gosub.return-position', 'plain RETURN resumes at the saved position and run mode', len(back) == 1 and flr.knows(back[0], 'jumpnum is None', True), '', ctx.where(rt))
    skip = [n for n in own_nodes(rt) if isinstance(n, ast.Call) and norm(n) == 'self.get_codestream().skip_to(tk.END_STATEMENT)']
    rep.ob('gosub.return-after-statement', 'RETURN continues after the calling statement (not for event frames)',
           len(skip) == 1 and flr.knows(skip[0], 'not handler', True), '', ctx.where(rt))
    js = ctx.fn(INTERP + ':Interpreter.jump_sub')
    stmts = [norm(s) for s in js.body]
    try:
        ok = stmts.index('pos = self.get_codestream().tell()') < stmts.index('run_mode = self.run_mode') < stmts.index('self.jump(jumpnum)') \
            < stmts.index('self.gosub_stack.append((pos, run_mode, handler))')
    except ValueError:
        ok = False
    rep.ob('gosub.push-after-successful-jump', 'jump_sub records position and mode, jumps, then pushes', ok, repr(stmts), ctx.where(js))
    # ---- WHILE stack --------------------------------------------------------
    wh = ctx.fn(INTERP + ':Interpreter.while_')
    rep.ob('while.push-once', 'while_ pushes (whilepos, wendpos) once', [o for o, _ in _stack_ops(wh, 'while_stack')] == ['append'], '', ctx.where(wh))
    cw = ctx.fn(INTERP + ':Interpreter._check_while_condition')
    fl = ctx.flow(cw)
    pops = [n for o, n in _stack_ops(cw, 'while_stack') if o == 'pop']
    cond = "not values.pass_number(self.parser.parse_expression(ins)).is_zero()"
    rep.ob('while.pop-when-false', '_check_while_condition pops and jumps past WEND iff the condition is zero',
           len(pops) == 1 and fl.knows(pops[0], cond, False), '', ctx.where(cw))
    pops = [n for o, n in _stack_ops(wd, 'while_stack') if o == 'pop']
    fl = ctx.flow(wd)
    rep.ob('while.wend-discards-foreign-frames', 'wend_ pops frames whose WEND position is not this one',
           len(pops) == 1 and fl.knows(pops[0], 'pos == wendpos', False), '', ctx.where(wd))
    # ---- ON ... GOTO/GOSUB --------------------------------------------------
    oj = ctx.fn(INTERP + ':Interpreter.on_jump_')
    fl = ctx.flow(oj)
    for n in own_nodes(oj):
        if isinstance(n, ast.Call) and norm(n.func) in ('self.jump', 'self.jump_sub'):
            facts = dict((f.text, f.pol) for f in fl.facts(n))
            kind = 'tk.GOTO' if norm(n.func) == 'self.jump' else 'tk.GOSUB'
            rep.ob('on.select-nth', 'ON: %s only for the n-th target' % norm(n.func), facts.get('i == onvar - 1') is True and
                   facts.get('jump_type == %s' % kind) is True and norm(n.args[0]) == 'jumpnum', repr(facts), ctx.where(n))
    from ..intervals import bounds
    en = [n for n in own_nodes(oj) if isinstance(n, ast.For)]
    if en:
        b = bounds(ctx, fl.facts(en[0]), 'onvar')
        rep.ob('on.selector-range', 'ON selector is range-checked to 0..255', (b.lo(), b.hi()) == (0, 255), b.describe(), ctx.where(oj))
        rep.ob('on.enumerates-targets', 'targets are enumerated from 0', norm(en[0].iter) == 'enumerate(args)', norm(en[0].iter), ctx.where(oj))
    rets = [r for r in own_nodes(oj) if isinstance(r, ast.Return)]
    rep.ob('on.fall-through', 'ON returns after the selected jump and otherwise falls through', len(rets) == 1 and fl.knows(rets[0], 'i == onvar - 1', True), '', ctx.where(oj))
    # ---- IF -----------------------------------------------------------------
    if_ = ctx.fn(INTERP + ':Interpreter.if_')
    tb = [n for n in own_nodes(if_) if isinstance(n, ast.Assign) and norm(n.targets[0]) == 'then_branch']
    rep.ob('if.condition', 'IF takes THEN iff the condition is non-zero', len(tb) == 1 and norm(tb[0].value) == 'not values.to_single(next(args)).is_zero()', '', ctx.where(if_))
    fl = ctx.flow(if_)
    j = [n for n in own_nodes(if_) if isinstance(n, ast.Call) and norm(n) == 'self.jump(branch)']
    rep.ob('if.line-number-jumps', 'a line number after THEN/ELSE jumps', len(j) == 1 and fl.knows(j[0], 'branch is not None', True), '', ctx.where(if_))
    # a bare ELSE is what execution meets after a THEN branch that did not jump: everything up to the end of the
    # line belongs to the ELSE clause and is skipped (REM likewise); DATA only skips to the end of the statement
    stm = 'pcbasic/basic/parser/statements.py'
    init = ctx.fn(stm + ':Parser._init_syntax')
    simple = [n.value for n in own_nodes(init) if isinstance(n, ast.Assign) and norm(n.targets[0]) == 'self._simple' and isinstance(n.value, ast.Dict)]
    rep.floor('if.else-skips-rest-of-line', len(simple), 1, 'self._simple tables')
    want = {'tk.ELSE': 'END_LINE', 'tk.REM': 'END_LINE', 'tk.DATA': 'END_STATEMENT'}
    for d in simple:
        entries = dict((norm(k), v) for k, v in zip(d.keys, d.values))
        for key, until in sorted(want.items()):
            v = entries.get(key)
            got = None
            if v is not None and norm(v).startswith('self.'):
                try:
                    m = ctx.fn(stm + ':Parser.' + norm(v)[5:])
                except AnalysisError:
                    m = None
                if m is not None:
                    calls = [c for c in own_nodes(m) if isinstance(c, ast.Call)]
                    if len(calls) == 1 and norm(calls[0].func) == 'ins.skip_to' and len(calls[0].args) == 1:
                        got = norm(calls[0].args[0]).split('.')[-1]
            rep.ob('if.else-skips-rest-of-line', '%s is parsed by skipping to %s' % (key, until), got == until,
                   'the table sends %s to %s, which skips to %s' % (key, norm(v) if v is not None else None, got), ctx.where(d))
    # jump(): undefined line
    jp = ctx.fn(INTERP + ':Interpreter.jump')
    fl = ctx.flow(jp)
    lk = [n for n in own_nodes(jp) if isinstance(n, ast.Subscript) and norm(n) == 'self._program.line_numbers[jumpnum]']
    rep.ob('jump.undefined-line', 'jump() maps a missing line to the BASIC error it was given',
           len(lk) == 1 and fl.in_try_catching(lk[0], ('KeyError',)) is not None, '', ctx.where(jp))


def variants(ctx):
    Va = mu.Variant

    def in_fn(fname, f):
        return lambda tree: f(mu.find_def(tree, 'Interpreter.' + fname))

    return [
        Va('else-matching-off-by-one', 'break', STMT,
           lambda tree: mu.replace_expr(mu.find_def(tree, 'Parser._parse_if'), mu.text_is('nesting_level > 0'), 'nesting_level > 1'), expect='nesting.closer-threshold'),
        Va('next-list-not-counted', 'break', CS,
           lambda tree: _drop_second_dec(mu.find_def(tree, 'TokenisedStream.skip_block')), expect='nesting.'),
        Va('next-zero-step-descending', 'break', INTERP,
           in_fn('iterate_loop', lambda fn: mu.replace_expr(fn, mu.text_is('sgn >= 0'), 'sgn > 0')), expect='direction.zero-step'),
        Va('for-zero-step-descending', 'break', INTERP,
           in_fn('for_', lambda fn: mu.replace_expr(fn, mu.text_is('step.sign() >= 0'), 'step.sign() > 0')), expect='direction.zero-step'),
        Va('for-zero-trip-wrong-direction', 'break', INTERP,
           in_fn('for_', lambda fn: mu.replace_expr(fn, mu.text_is('start.gt(stop) if step.sign() >= 0 else stop.gt(start)'),
                                                    'stop.gt(start) if step.sign() >= 0 else start.gt(stop)')), expect='direction.zero-trip'),
        Va('zero-trip-for-ignores-the-next-list', 'break', INTERP,
           in_fn('for_', lambda fn: mu.remove_stmt(fn, lambda st: isinstance(st, ast.While) and 'skip_blank_read_if' in norm(st.test))), expect='direction.zero-trip-next-list'),
        Va('iterate-ends-on-ge', 'break', INTERP,
           in_fn('iterate_loop', lambda fn: mu.replace_expr(fn, mu.text_is('counter_view.gt(stop) if sgn >= 0 else stop.gt(counter_view)'),
                                                            'not stop.gt(counter_view) if sgn >= 0 else not counter_view.gt(stop)')), expect='direction.termination'),
        Va('iterate-never-pops', 'break', INTERP,
           in_fn('iterate_loop', lambda fn: mu.replace_stmt(fn, lambda st: isinstance(st, ast.If) and norm(st.test) == 'loop_ends',
                                                            'if not loop_ends:\n    ins.seek(forpos)')), expect='for.pop-on-end'),
        Va('return-jumps-before-pop', 'break', INTERP, in_fn('return_', _peek_instead_of_pop), expect='gosub.pop'),
        Va('gosub-pushes-before-jump', 'break', INTERP, in_fn('jump_sub', _push_first), expect='push-after'),
        Va('on-off-by-one', 'break', INTERP,
           in_fn('on_jump_', lambda fn: mu.replace_expr(fn, mu.text_is('i == onvar - 1'), 'i == onvar')), expect='on.'),
        Va('on-range-unchecked', 'break', INTERP,
           in_fn('on_jump_', lambda fn: mu.remove_stmt(fn, mu.text_is('error.range_check(0, 255, onvar)'))), expect='on.selector-range'),
        Va('wend-error-swapped', 'break', INTERP,
           in_fn('wend_', lambda fn: mu.replace_expr(fn, mu.text_is('error.WEND_WITHOUT_WHILE'), 'error.WHILE_WITHOUT_WEND')), expect='errors.sites'),
        Va('while-keeps-frame-when-false', 'break', INTERP,
           in_fn('_check_while_condition', lambda fn: mu.replace_stmt(fn, mu.text_is('_, wendpos = self.while_stack.pop()'), '_, wendpos = self.while_stack[-1]')),
           expect='while.pop'),
        Va('if-tests-zero', 'break', INTERP,
           in_fn('if_', lambda fn: mu.replace_expr(fn, mu.text_is('not values.to_single(next(args)).is_zero()'), 'values.to_single(next(args)).is_zero()')),
           expect='if.condition'),
        Va('return-without-gosub-as-ifc', 'break', INTERP,
           in_fn('return_', lambda fn: mu.replace_expr(fn, mu.text_is('error.RETURN_WITHOUT_GOSUB'), 'error.IFC')), expect='errors'),
        Va('for-limit-aliases-variable', 'break', INTERP,
           in_fn('for_', lambda fn: mu.replace_expr(fn, mu.text_is('values.to_type(vartype, next(args)).clone()'), 'values.to_type(vartype, next(args))', count=2)),
           expect='for.frame-holds-copies'),
        Va('for-step-aliases-variable', 'break', INTERP,
           in_fn('for_', lambda fn: mu.replace_expr(fn, mu.text_is('values.to_type(vartype, step).clone()'), 'values.to_type(vartype, step)')),
           expect='for.frame-holds-copies'),
        Va('for-start-not-copied', 'neutral', INTERP,
           in_fn('for_', lambda fn: mu.replace_expr(fn, mu.text_is('values.to_type(vartype, next(args)).clone()'), 'values.to_type(vartype, next(args))', count=1))),
        Va('else-skips-one-statement-only', 'break', 'pcbasic/basic/parser/statements.py',
           lambda tree: mu.set_dict_value(mu.find_assign_value(mu.find_def(tree, 'Parser._init_syntax'), 'self._simple'), 'tk.ELSE', 'self._skip_statement'),
           expect='if.else-skips-rest-of-line'),
        Va('for-types-the-counter-from-the-uncompleted-name', 'break', INTERP,
           in_fn('for_', lambda fn: mu.replace_expr(fn, mu.text_is('self._memory.complete_name(next(args))'), 'next(args)')), expect='names.sigil-read-from-completed-name'),
        Va('for-push-via-local', 'neutral', INTERP, in_fn('for_', lambda fn: mu.rename_local(fn, 'ins', 'stream'))),
    ]


def _peek_instead_of_pop(fn):
    # pos, orig_runmode, handler = self.gosub_stack.pop()  ->  read [-1], pop at the end
    ok = mu.replace_expr(fn, mu.text_is('self.gosub_stack.pop()'), 'self.gosub_stack[-1]')
    mu.append_last(fn, 'self.gosub_stack.pop()')
    return ok


def _push_first(fn):
    p = [s for s in fn.body if 'gosub_stack.append' in norm(s)][0]
    j = [s for s in fn.body if norm(s) == 'self.jump(jumpnum)'][0]
    fn.body.remove(p)
    fn.body.insert(fn.body.index(j), p)
    return True


def _drop_second_dec(fn):
    decs = [a for a in ast.walk(fn) if isinstance(a, ast.AugAssign) and norm(a) == 'stack -= 1']
    if len(decs) < 2:
        return False
    target = sorted(decs, key=lambda a: a.lineno)[-1]
    for n in ast.walk(fn):
        for fld in ('body', 'orelse'):
            b = getattr(n, fld, None)
            if isinstance(b, list) and target in b:
                b.remove(target)
                return True
    return False

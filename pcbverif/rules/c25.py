"""
C25 -- random-access files behave as arrays of fixed-length records
(structural half).

Decides:
 * unit consistency (UnitFlow with REC = record index, BYTE = byte count,
   RECLEN = bytes per record; REC*RECLEN -> BYTE): in RandomFile.get/put/eof/
   _set_record_pos no record number is compared with, added to or subtracted
   from a byte count -- the padding defect repaired in /repo
   ("PUT beyond the end of a random file pads ... in bytes") compared _recpos
   with lof();
 * record range: Files._check_pos passes exactly 1..2^25 and raises Bad record
   number otherwise; PUT/GET statements pass the checked position on;
 * get and put agree: position (seek to (pos-1)*reclen, _recpos = pos-1), lock
   check on record _recpos+1, transfer, then _recpos += 1; LOC returns _recpos;
 * GET beyond the end zero-fills: under eof() the contents are reclen NUL
   bytes; the field buffer is always padded/cut to reclen bytes (set_buffer);
   PUT writes exactly get_buffer() = the first reclen bytes of the field;
 * PUT pads the gap between end of file and the record with NUL bytes:
   (record start in bytes) - (file length in bytes), guarded by the matching
   comparison;
 * LOF measures the file by seeking to its end and restores the position.
Not decided: contents over histories.
"""
import ast

from ..source import norm, short
from ..flow import own_nodes
from ..intervals import bounds
from ..units import UnitFlow
from ..algebra import lin
from .. import mutate as mu

PROP = 'C25'
LEVEL = 'other'
TECHNIQUE = 'static analysis: unit-typed abstract interpretation (record index vs byte count), guard intervals, sibling agreement of GET/PUT'
EXPLANATION = __doc__

DF = 'pcbasic/basic/devices/diskfiles.py'
FILES = 'pcbasic/basic/devices/files.py'


def _uf():
    return UnitFlow(
        absolute='<none>', offset='<none>',
        seeds={'self._recpos': 'REC', 'self.reclen': 'RECLEN', 'call:self.lof': 'BYTE', 'call:self._fhandle.tell': 'BYTE'},
        params={('_set_record_pos', 'pos'): 'REC', ('get', 'pos'): 'REC', ('put', 'pos'): 'REC'},
        mul_rules={('REC', 'RECLEN'): 'BYTE', ('/', 'BYTE', 'RECLEN'): 'REC', ('NUM', 'RECLEN'): 'BYTE'},
    )


def check(ctx, rep):
    # RANDOM files are opened for reading and writing in place: not truncated ('w+'), and not in append mode ('a+'), in which
    # every write goes to the end of the file whatever position PUT has set
    am = ctx.const('pcbasic/basic/devices/disk.py', 'ACCESS_MODES')
    rep.ob('modes.random-read-write-in-place', "ACCESS_MODES[b'R'] is 'r+'", isinstance(am, dict) and am.get(b'R') == 'r+',
           'RANDOM is opened with %r: a PUT to an existing record does not overwrite it (append) or the file is emptied on OPEN (truncate)' % (am.get(b'R') if isinstance(am, dict) else am,),
           'pcbasic/basic/devices/disk.py')
    rep.ob('modes.random-read-write-in-place', "the other modes: INPUT 'r', OUTPUT 'w', APPEND 'a'",
           isinstance(am, dict) and (am.get(b'I'), am.get(b'O'), am.get(b'A')) == ('r', 'w', 'a'), repr(am), 'pcbasic/basic/devices/disk.py')
    from ..optargs import check as _optargs
    _optargs(ctx, rep, ['pcbasic/basic/devices/files.py', 'pcbasic/basic/devices/diskfiles.py'], 12)
    from . import c24 as _c24, _share as _sh
    _sh.share(ctx, rep, _c24, ('lof.wide-enough',), 'LOC and LOF of a random file are returned as single-precision numbers (record numbers run to 2^25)')
    _sh.share(ctx, rep, _c24, ('eof-marker.cut',), 'opening a file never cuts a byte off it except the EOF marker of a text file opened for APPEND')
    n = 0
    typed = 0
    for meth in ('get', 'put', 'eof', '_set_record_pos', 'loc', 'lof'):
        fn = ctx.fn('%s:RandomFile.%s' % (DF, meth))
        uf = _uf()
        env = uf.run(fn)
        n += 1
        typed += uf.checked
        if not uf.errors:
            rep.ob('units.records-vs-bytes', 'RandomFile.%s' % meth, True)
        for e in uf.errors:
            rep.ob('units.records-vs-bytes', 'RandomFile.%s: %s' % (meth, short(e.node, 70)), False, e.msg, ctx.where(e.node))
        # seek arguments must be BYTE, multiplications by b'\0' BYTE
        for c in own_nodes(fn):
            if isinstance(c, ast.Call) and norm(c.func) == 'self._fhandle.seek' and c.args and len(c.args) == 1:
                u = uf.unit(c.args[0], env, fn)
                rep.ob('units.seek-in-bytes', 'RandomFile.%s: %s' % (meth, short(c)), u in ('BYTE', 'NUM'), 'seek offset has unit %s' % u, ctx.where(c))
            if isinstance(c, ast.BinOp) and isinstance(c.op, ast.Mult) and isinstance(c.left, ast.Constant) and c.left.value == b'\0':
                u = uf.unit(c.right, env, fn)
                rep.ob('units.fill-in-bytes', 'RandomFile.%s: %s' % (meth, short(c)), u in ('BYTE', 'RECLEN'), 'fill length has unit %s' % u, ctx.where(c))
    rep.floor('units.records-vs-bytes', n, 6, 'methods')
    rep.floor('units.typed-comparisons', typed, 2, 'typed comparisons')
    # record range
    cp = ctx.fn(FILES + ':Files._check_pos')
    fl = ctx.flow(cp)
    rets = [r for r in own_nodes(cp) if isinstance(r, ast.Return) and norm(r.value) == 'pos']
    passing = [r for r in rets if not fl.knows(r, 'pos is None', True)]
    ok = False
    if len(passing) == 1:
        b = bounds(ctx, fl.facts(passing[0]), 'pos')
        ok = (b.lo(), b.hi()) == (1, 2 ** 25)
    rep.ob('range.record-number', '_check_pos passes exactly 1..2^25', ok, b.describe() if passing else 'no return', ctx.where(cp))
    thr = [t for t in ctx.throwers(cp)]
    rep.ob('range.error', 'outside the range raises Bad record number', [c for _, c, _ in thr] == ['BAD_RECORD_NUMBER'], repr([c for _, c, _ in thr]), ctx.where(cp))
    for meth in ('put_', 'get_'):
        fn = ctx.fn('%s:Files.%s' % (FILES, meth))
        st = [norm(s) for s in fn.body]
        try:
            ok = st.index('pos = self._check_pos(pos)') < st.index('the_file.%s(pos)' % meth.rstrip('_'))
        except ValueError:
            ok = False
        rep.ob('range.statement-wiring', 'Files.%s checks the record number and passes it on' % meth, ok, '', ctx.where(fn))
        rep.ob('range.statement-wiring', 'Files.%s requires a file open for RANDOM' % meth, "the_file = self.get(number, b'R', not_open=error.BAD_FILE_MODE)" in st, '', ctx.where(fn))
    # positioning
    sp = ctx.fn(DF + ':RandomFile._set_record_pos')
    seeks = [c for c in own_nodes(sp) if isinstance(c, ast.Call) and norm(c.func) == 'self._fhandle.seek']
    asg = [a for a in own_nodes(sp) if isinstance(a, ast.Assign) and norm(a.targets[0]) == 'self._recpos']
    ok = len(seeks) == 1 and len(asg) == 1 and lin(asg[0].value) == {'pos': 1, '': -1}
    if ok:
        a0 = seeks[0].args[0]
        ok = isinstance(a0, ast.BinOp) and isinstance(a0.op, ast.Mult) and {norm(a0.left), norm(a0.right)} == {'pos - 1', 'self.reclen'}
    rep.ob('position.first-record-is-1', '_set_record_pos: seek((pos-1)*reclen); _recpos = pos-1', ok, '', ctx.where(sp))
    rep.ob('position.implicit', 'no position given leaves the pointer where the last transfer ended', ctx.flow(sp).knows(seeks[0], 'pos is not None', True) if seeks else False, '', ctx.where(sp))
    loc = ctx.fn(DF + ':RandomFile.loc')
    rep.ob('loc', 'LOC returns the number of the last record accessed (_recpos)', norm([r for r in own_nodes(loc) if isinstance(r, ast.Return)][0].value) == 'self._recpos', '', ctx.where(loc))
    # sibling agreement get/put
    seqs = {}
    for meth in ('get', 'put'):
        fn = ctx.fn('%s:RandomFile.%s' % (DF, meth))
        seq = []
        for s in fn.body:
            t = norm(s)
            if t.startswith('self._set_record_pos('):
                seq.append('position')
            elif 'try_record_access' in t:
                seq.append('lockcheck')
            elif t == 'self._recpos += 1':
                seq.append('advance')
            elif any(isinstance(c, ast.Call) and norm(c.func) in ('self._fhandle.read', 'self._fhandle.write', 'self._field_file.set_buffer') for c in own_nodes(s)):
                if not seq or seq[-1] != 'transfer':
                    seq.append('transfer')
        seqs[meth] = seq
    rep.ob('siblings.get-put-sequence', 'GET and PUT: position, lock check, transfer, advance by one',
           seqs.get('get') == seqs.get('put') == ['position', 'lockcheck', 'transfer', 'advance'], repr(seqs), DF)
    # zero fill on GET beyond end
    g = ctx.fn(DF + ':RandomFile.get')
    fl = ctx.flow(g)
    z = [a for a in own_nodes(g) if isinstance(a, ast.Assign) and norm(a.targets[0]) == 'contents']
    zs = dict((norm(a.value), fl.knows(a, 'self.eof()', True)) for a in z)
    rep.ob('get.zero-fill-beyond-end', 'GET of a record beyond the end yields reclen NUL bytes; otherwise reads reclen bytes',
           zs == {"b'\\x00' * self.reclen": True, 'self._fhandle.read(self.reclen)': False}, repr(zs), ctx.where(g))
    sb = [c for c in own_nodes(g) if isinstance(c, ast.Call) and norm(c) == 'self._field_file.set_buffer(contents)']
    rep.ob('get.into-field', 'GET stores the record into the FIELD buffer', len(sb) == 1, '', ctx.where(g))
    sbf = ctx.fn(DF + ':FieldFile.set_buffer')
    a = [x for x in own_nodes(sbf) if isinstance(x, ast.Assign) and norm(x.targets[0]) == 'self._field.view_buffer()[:self._reclen]']
    rep.ob('field.exact-length', 'set_buffer pads the record with NUL to reclen bytes', len(a) == 1 and norm(a[0].value) == "contents.ljust(self._reclen, b'\\x00')", '', ctx.where(sbf))
    gb = ctx.fn(DF + ':FieldFile.get_buffer')
    rep.ob('field.exact-length', 'get_buffer returns the first reclen bytes of the FIELD',
           norm([r for r in own_nodes(gb) if isinstance(r, ast.Return)][0].value) == 'bytearray(self._field.view_buffer()[:self._reclen])', '', ctx.where(gb))
    p = ctx.fn(DF + ':RandomFile.put')
    wr = [c for c in own_nodes(p) if isinstance(c, ast.Call) and norm(c) == 'self._fhandle.write(bytes(self._field_file.get_buffer()))']
    rep.ob('put.writes-field', 'PUT writes exactly the FIELD buffer', len(wr) == 1, '', ctx.where(p))
    # padding
    flp = ctx.flow(p)
    pads = [c for c in own_nodes(p) if isinstance(c, ast.Call) and norm(c.func) == 'self._fhandle.write' and "b'\\x00' *" in norm(c.args[0])]
    ok = len(pads) == 1
    if ok:
        fill = pads[0].args[0].right
        guard = [f for f in flp.facts(pads[0]) if f.pol and isinstance(f.cond, ast.Compare) and isinstance(f.cond.ops[0], ast.Gt)]
        ok = bool(guard) and lin(fill) == lin(ast.BinOp(left=guard[0].cond.left, op=ast.Sub(), right=guard[0].cond.comparators[0]))
    rep.ob('put.pad-gap', 'PUT fills exactly the gap (record start - file length) under the matching guard', ok, '', ctx.where(p))
    if pads:
        sk = [c for c in own_nodes(p) if isinstance(c, ast.Call) and norm(c) == 'self._fhandle.seek(0, 2)']
        rep.ob('put.pad-gap', 'the fill is appended at the end of the file', len(sk) == 1 and sk[0].lineno < pads[0].lineno, '', ctx.where(p))
    e = ctx.fn(DF + ':RandomFile.eof')
    r = [x for x in own_nodes(e) if isinstance(x, ast.Return)][0].value
    rep.ob('eof', 'EOF iff the record position in bytes lies beyond the file length',
           isinstance(r, ast.Compare) and isinstance(r.ops[0], ast.Gt) and norm(r.comparators[0]) == 'self.lof()' and
           isinstance(r.left, ast.BinOp) and {norm(r.left.left), norm(r.left.right)} == {'self._recpos', 'self.reclen'}, norm(r), ctx.where(e))
    lf = ctx.fn(DF + ':RandomFile.lof')
    st = [norm(s) for s in lf.body[-2].body] if isinstance(lf.body[-2], ast.With) else []
    rep.ob('lof', 'LOF: remember position, seek to end, read length, restore position',
           st == ['current = self._fhandle.tell()', 'self._fhandle.seek(0, 2)', 'lof = self._fhandle.tell()', 'self._fhandle.seek(current)'], repr(st), ctx.where(lf))
    # open: position at start
    ini = ctx.fn(DF + ':RandomFile.__init__')
    st = [norm(s) for s in ini.body]
    rep.ob('open.start', 'a newly opened random file starts at record 0 / byte 0', 'self._recpos = 0' in st and 'self._fhandle.seek(0)' in st, '', ctx.where(ini))


def _variants0(ctx):
    Va = mu.Variant

    def in_fn(f_name, f):
        return lambda tree: f(mu.find_def(tree, f_name))

    return [
        Va('put-compares-records-with-bytes', 'break', DF,
           in_fn('RandomFile.put', lambda fn: mu.replace_expr(fn, mu.text_is('self._recpos * self.reclen > current_length'), 'self._recpos > current_length')),
           expect='units'),
        Va('put-pad-in-records', 'break', DF,
           in_fn('RandomFile.put', lambda fn: mu.replace_expr(fn, mu.text_is('self._recpos * self.reclen - current_length'), '(self._recpos - current_length) * self.reclen')),
           expect='units'),
        Va('eof-in-records', 'break', DF,
           in_fn('RandomFile.eof', lambda fn: mu.replace_expr(fn, mu.text_is('self._recpos * self.reclen > self.lof()'), 'self._recpos > self.lof()')), expect='units'),
        Va('seek-to-record-number', 'break', DF,
           in_fn('RandomFile._set_record_pos', lambda fn: mu.replace_expr(fn, mu.text_is('(pos - 1) * self.reclen'), 'pos - 1')), expect='seek'),
        Va('first-record-is-0', 'break', DF,
           in_fn('RandomFile._set_record_pos', lambda fn: mu.replace_stmt(fn, mu.text_is('self._recpos = pos - 1'), 'self._recpos = pos')), expect='position'),
        Va('record-range-2^24', 'break', FILES,
           in_fn('Files._check_pos', lambda fn: mu.replace_expr(fn, mu.text_is('2 ** 25'), '2 ** 24')), expect='range.record-number'),
        Va('record-range-error', 'break', FILES,
           in_fn('Files._check_pos', lambda fn: mu.replace_expr(fn, mu.text_is('error.BAD_RECORD_NUMBER'), 'error.IFC')), expect='range.error'),
        Va('get-does-not-advance', 'break', DF,
           in_fn('RandomFile.get', lambda fn: mu.remove_stmt(fn, mu.text_is('self._recpos += 1'))), expect='siblings'),
        Va('get-beyond-end-reads', 'break', DF,
           in_fn('RandomFile.get', lambda fn: mu.replace_expr(fn, mu.text_is('self.eof()'), 'False')), expect='get.zero-fill'),
        Va('put-writes-whole-field', 'break', DF,
           in_fn('FieldFile.get_buffer', lambda fn: mu.replace_expr(fn, mu.text_is('self._field.view_buffer()[:self._reclen]'), 'self._field.view_buffer()')), expect='field.exact'),
        Va('loc-off-by-one', 'break', DF,
           in_fn('RandomFile.loc', lambda fn: mu.replace_expr(fn, mu.text_is('self._recpos'), 'self._recpos + 1')), expect='loc'),
        Va('pad-guard-commuted', 'neutral', DF,
           in_fn('RandomFile.put', lambda fn: mu.replace_expr(fn, mu.text_is('self._recpos * self.reclen > current_length'), 'self.reclen * self._recpos > current_length'))),
    ]


def variants(ctx):
    return _variants0(ctx) + [
        mu.Variant('random-files-opened-in-append-mode', 'break', 'pcbasic/basic/devices/disk.py',
                   lambda tree: mu.replace_expr(tree, lambda n: isinstance(n, ast.Constant) and n.value == 'r+', "'a+'"), expect='modes.random-read-write-in-place'),
        mu.Variant('width-rows-zero-treated-as-omitted', 'break', 'pcbasic/basic/devices/files.py',
                   lambda tree: (lambda fn: mu.replace_expr(fn, mu.text_is('num_rows_dummy is not None'), 'num_rows_dummy', count=2))(mu.find_def(tree, 'Files.width_')), expect='arguments.zero-is-not-omitted'),
    ]

"""
GuardIntervals: from PathFacts, the bounds on an expression that survive all
guards before a sink.  Bounds are folded to ints where possible, else kept as
normalised text (symbolic, e.g. `self.mode.width`).
"""
import ast

from .source import norm
from .consts import is_unknown

_FLIP = {ast.Lt: ast.Gt, ast.LtE: ast.GtE, ast.Gt: ast.Lt, ast.GtE: ast.LtE, ast.Eq: ast.Eq, ast.NotEq: ast.NotEq}
_NEG = {ast.Lt: ast.GtE, ast.LtE: ast.Gt, ast.Gt: ast.LtE, ast.GtE: ast.Lt, ast.Eq: ast.NotEq, ast.NotEq: ast.Eq}


class Bounds(object):
    """lower/upper: lists of (value, inclusive, text)"""

    def __init__(self):
        self.lower = []
        self.upper = []
        self.eq = []
        self.ne = []

    def lo(self):
        """Greatest known integer lower bound (inclusive) or None."""
        vals = [(v if inc else v + 1) for v, inc, t in self.lower if isinstance(v, int)]
        vals += [v for v, t in self.eq if isinstance(v, int)]
        return max(vals) if vals else None

    def hi(self):
        vals = [(v if inc else v - 1) for v, inc, t in self.upper if isinstance(v, int)]
        vals += [v for v, t in self.eq if isinstance(v, int)]
        return min(vals) if vals else None

    def lo_texts(self):
        return [('%s%s' % ('>=' if inc else '>', t)) for v, inc, t in self.lower]

    def hi_texts(self):
        return [('%s%s' % ('<=' if inc else '<', t)) for v, inc, t in self.upper]

    def two_sided(self):
        return bool(self.lower or self.eq) and bool(self.upper or self.eq)

    def describe(self):
        return 'lower%r upper%r eq%r' % (self.lo_texts(), self.hi_texts(), [t for v, t in self.eq])


def bounds(ctx, facts, var_text):
    """Collect bounds on the expression whose normalised text is var_text from a list of Facts."""
    b = Bounds()

    def val(node):
        v = ctx.cf.fold(node, getattr(node, '_module', None))
        if is_unknown(v) or not isinstance(v, (int, float)) or isinstance(v, bool):
            return None
        return v

    def add(op, other, pol):
        if not pol:
            op = _NEG.get(op)
        if op is None:
            return
        v, t = val(other), norm(other)
        if op is ast.Lt:
            b.upper.append((v, False, t))
        elif op is ast.LtE:
            b.upper.append((v, True, t))
        elif op is ast.Gt:
            b.lower.append((v, False, t))
        elif op is ast.GtE:
            b.lower.append((v, True, t))
        elif op is ast.Eq:
            b.eq.append((v, t))
        elif op is ast.NotEq:
            b.ne.append((v, t))

    for f in facts:
        c = f.cond
        if isinstance(c, ast.Compare) and len(c.ops) == 1:
            l, r, op = c.left, c.comparators[0], type(c.ops[0])
            if norm(l) == var_text:
                add(op, r, f.pol)
            elif norm(r) == var_text and op in _FLIP:
                add(_FLIP[op], l, f.pol)
            elif op is ast.In and norm(l) == var_text and f.pol:
                vals = ctx.cf.fold(r, getattr(r, '_module', None))
                if isinstance(vals, (tuple, list, set, range)) and vals and all(isinstance(x, int) for x in vals):
                    b.lower.append((min(vals), True, 'min' + norm(r)))
                    b.upper.append((max(vals), True, 'max' + norm(r)))
    return b

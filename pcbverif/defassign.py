"""
Definite assignment ("possibly unbound local") for one function: a syntax-directed
forward analysis.  State = set of local names assigned on *every* path reaching a
statement (ALL = unreachable).  if: intersection of the branches; for/while: the
body may run zero times, so its assignments do not count afterwards (except
`while True`, which is left only through `break`); try: intersection of the normal
exit and every handler exit; return/raise/continue/break end a path.  A read of
a local that is not definitely assigned is reported as (name, line).
The analysis is path-insensitive: `if c: v = 1` ... `if c: use(v)` is reported;
such correlated-condition idioms are triaged in the rule that uses this module.
"""
import ast

ALL = None  # sentinel for "unreachable": everything assigned

def names_stored(t):
    return [n.id for n in ast.walk(t) if isinstance(n, ast.Name) and isinstance(n.ctx, ast.Store)]

class DefiniteAssignment(object):
    def __init__(self, fn):
        self.fn = fn
        a = fn.args
        self.params = set(x.arg for x in a.args + a.kwonlyargs + getattr(a,'posonlyargs',[]))
        if a.vararg: self.params.add(a.vararg.arg)
        if a.kwarg: self.params.add(a.kwarg.arg)
        self.locals = set()
        decl = set()
        for n in ast.walk(fn):
            if isinstance(n, (ast.Global, ast.Nonlocal)): decl |= set(n.names)
        for n in self.own(fn):
            if isinstance(n, ast.Name) and isinstance(n.ctx, ast.Store): self.locals.add(n.id)
            if isinstance(n, ast.ExceptHandler) and n.name: self.locals.add(n.name)
            if isinstance(n, (ast.Import, ast.ImportFrom)):
                for al in n.names: self.locals.add((al.asname or al.name).split('.')[0])
            if isinstance(n,(ast.FunctionDef,ast.ClassDef)) and n is not fn: self.locals.add(n.name)
        self.locals -= decl
        self.locals -= self.params
        self.hits = []
        self.breaks = []
    def own(self, node):
        # nodes of fn excluding nested function bodies / lambdas / comprehensions scopes
        stack=[node]
        while stack:
            n=stack.pop()
            yield n
            for c in ast.iter_child_nodes(n):
                if isinstance(c,(ast.FunctionDef,ast.AsyncFunctionDef,ast.Lambda,ast.ClassDef)) and c is not node:
                    if isinstance(c,(ast.FunctionDef,ast.ClassDef)): yield c
                    continue
                stack.append(c)
    def reads(self, expr, da):
        if da is ALL: return
        comp_bound=set()
        for n in ast.walk(expr):
            if isinstance(n,(ast.ListComp,ast.SetComp,ast.DictComp,ast.GeneratorExp)):
                for g in n.generators: comp_bound |= set(names_stored(g.target))
        for n in self.own(expr) if not isinstance(expr,(ast.Lambda,)) else []:
            if isinstance(n, ast.Name) and isinstance(n.ctx, ast.Load) and n.id in self.locals and n.id not in da and n.id not in comp_bound:
                self.hits.append((n.id, n.lineno))
    def block(self, stmts, da):
        for st in stmts:
            da = self.stmt(st, da)
        return da
    def stmt(self, st, da):
        if da is ALL: return ALL
        if isinstance(st, ast.Assign):
            self.reads(st.value, da)
            for t in st.targets:
                for n in ast.walk(t):
                    if isinstance(n, ast.Name) and isinstance(n.ctx, ast.Load): self.reads(n, da)
            return da | set(x for t in st.targets for x in names_stored(t))
        if isinstance(st, ast.AugAssign):
            self.reads(st.value, da)
            if isinstance(st.target, ast.Name) and st.target.id in self.locals and st.target.id not in da:
                self.hits.append((st.target.id, st.lineno))
            return da | set(names_stored(st.target))
        if isinstance(st, ast.AnnAssign):
            if st.value: self.reads(st.value, da); return da | set(names_stored(st.target))
            return da
        if isinstance(st, (ast.Expr,)):
            self.reads(st.value, da); return da
        if isinstance(st, ast.Return):
            if st.value: self.reads(st.value, da)
            return ALL
        if isinstance(st, ast.Raise):
            if st.exc: self.reads(st.exc, da)
            return ALL
        if isinstance(st, (ast.Continue,)):
            return ALL
        if isinstance(st, ast.Break):
            self.breaks[-1].append(da); return ALL
        if isinstance(st, ast.If):
            self.reads(st.test, da)
            a = self.block(st.body, da); b = self.block(st.orelse, da)
            return self.meet(a, b)
        if isinstance(st, (ast.For, ast.AsyncFor)):
            self.reads(st.iter, da)
            self.breaks.append([])
            body_in = da | set(names_stored(st.target))
            self.block(st.body, body_in)
            brk = self.breaks.pop()
            after = self.block(st.orelse, da)   # zero iterations -> else runs with da
            for b in brk: after = self.meet(after, b)
            return after
        if isinstance(st, ast.While):
            self.reads(st.test, da)
            self.breaks.append([])
            self.block(st.body, da)
            brk = self.breaks.pop()
            infinite = isinstance(st.test, ast.Constant) and bool(st.test.value)
            after = ALL if infinite else self.block(st.orelse, da)
            for b in brk: after = self.meet(after, b)
            return after
        if isinstance(st, (ast.With, ast.AsyncWith)):
            for it in st.items:
                self.reads(it.context_expr, da)
                if it.optional_vars is not None: da = da | set(names_stored(it.optional_vars))
            return self.block(st.body, da)
        if isinstance(st, ast.Try):
            body = self.block(st.body, da)
            outs = []
            els = self.block(st.orelse, body) if body is not ALL else ALL
            outs.append(els)
            for h in st.handlers:
                hin = da | ({h.name} if h.name else set())
                outs.append(self.block(h.body, hin))
            res = ALL
            for o in outs: res = self.meet(res, o)
            if st.finalbody:
                f = self.block(st.finalbody, da if res is ALL else (res & da if False else da))
                # after finally: res plus what finally assigns
                if res is ALL: return ALL if f is ALL else ALL
                if f is ALL: return ALL
                return res | (f - da) | (res)
            return res
        if isinstance(st, (ast.FunctionDef, ast.ClassDef, ast.AsyncFunctionDef)):
            return da | {st.name}
        if isinstance(st, (ast.Import, ast.ImportFrom)):
            return da | set((al.asname or al.name).split('.')[0] for al in st.names)
        if isinstance(st, ast.Delete):
            return da
        if isinstance(st, ast.Assert):
            self.reads(st.test, da); return da
        return da
    def meet(self, a, b):
        if a is ALL: return b
        if b is ALL: return a
        return a & b
    def run(self):
        self.block(self.fn.body, set())
        return self.hits


def possibly_unbound(fn):
    """[(name, first line)] of locals read where they may be unbound."""
    seen, out = set(), []
    for name, line in DefiniteAssignment(fn).run():
        if name not in seen:
            seen.add(name)
            out.append((name, line))
    return out


def loop_target_escapes(fn):
    """
    Reads of a `for` target after its loop has ended (same block, before the name is bound again).
    Such a read sees the *last* element iterated, which is rarely what is meant when the loop
    searched for something (Engler-style deviant pattern: `for name in ...: if ..: found = name` /
    `use(name)`).  Returns [(name, Name node)] -- at most one per loop and name.
    """
    out = []

    def names(t, ctx):
        return set(x.id for x in ast.walk(t) if isinstance(x, ast.Name) and isinstance(x.ctx, ctx))

    def loads(expr, live):
        comp = set()
        for c in ast.walk(expr):
            if isinstance(c, (ast.ListComp, ast.GeneratorExp, ast.SetComp, ast.DictComp)):
                for g in c.generators:
                    comp |= names(g.target, ast.Store)
        for x in ast.walk(expr):
            if isinstance(x, ast.Name) and isinstance(x.ctx, ast.Load) and x.id in live and x.id not in comp:
                return x
        return None

    def scan(stmts, live):
        """Returns the first escaping read in stmts, tracking re-bindings; live is mutated on definite re-binding."""
        for st in stmts:
            if not live:
                return None
            if isinstance(st, (ast.Assign, ast.AnnAssign, ast.AugAssign)):
                v = getattr(st, 'value', None)
                hit = loads(v, live) if v is not None else None
                if hit is None and isinstance(st, ast.AugAssign):
                    hit = loads(ast.Name(id=st.target.id, ctx=ast.Load()), live) if isinstance(st.target, ast.Name) and st.target.id in live else None
                    if hit is not None:
                        hit = st.target
                if hit is not None:
                    return hit
                targets = st.targets if isinstance(st, ast.Assign) else [st.target]
                for t in targets:
                    live -= names(t, ast.Store)
            elif isinstance(st, (ast.For, ast.AsyncFor)):
                hit = loads(st.iter, live)
                if hit is not None:
                    return hit
                inner = set(live) - names(st.target, ast.Store)
                hit = scan(st.body, inner) or scan(st.orelse, set(inner))
                if hit is not None:
                    return hit
            elif isinstance(st, ast.While):
                hit = loads(st.test, live) or scan(st.body, set(live)) or scan(st.orelse, set(live))
                if hit is not None:
                    return hit
            elif isinstance(st, ast.If):
                hit = loads(st.test, live)
                if hit is not None:
                    return hit
                a, b = set(live), set(live)
                hit = scan(st.body, a) or scan(st.orelse, b)
                if hit is not None:
                    return hit
                live &= (a | b)
            elif isinstance(st, ast.Try):
                a = set(live)
                hit = scan(st.body, a)
                for h in st.handlers:
                    hit = hit or scan(h.body, set(live))
                hit = hit or scan(st.orelse, a) or scan(st.finalbody, set(live))
                if hit is not None:
                    return hit
            elif isinstance(st, (ast.With, ast.AsyncWith)):
                for it in st.items:
                    hit = loads(it.context_expr, live)
                    if hit is not None:
                        return hit
                    if it.optional_vars is not None:
                        live -= names(it.optional_vars, ast.Store)
                hit = scan(st.body, live)
                if hit is not None:
                    return hit
            elif isinstance(st, (ast.FunctionDef, ast.AsyncFunctionDef, ast.ClassDef)):
                continue
            else:
                hit = loads(st, live)
                if hit is not None:
                    return hit
        return None

    for loop in ast.walk(fn):
        if isinstance(loop, (ast.For, ast.AsyncFor)):
            tg = names(loop.target, ast.Store)
            p = getattr(loop, '_parent', None)
            if not tg or p is None:
                continue
            for fld in ('body', 'orelse', 'finalbody'):
                b = getattr(p, fld, None)
                if isinstance(b, list) and loop in b:
                    hit = scan(b[b.index(loop) + 1:], set(tg))
                    if hit is not None:
                        out.append((hit.id, hit))
    return out

"""
A variable name as the parser hands it to a statement callback may lack its type character (`A` under DEFSTR A is A$):
Memory.complete_name appends it.  A callback that looks at the type character of a name (`name[-1:] == values.STR`) must
look at the completed name, or a name typed by DEFINT/DEFSTR/DEFDBL is taken for the default type.
"""
import ast

from .source import norm, short
from .flow import own_nodes


def _from_args(fn):
    """Names bound from the callback's argument stream."""
    out = set()
    for n in own_nodes(fn):
        src = tgt = None
        if isinstance(n, ast.Assign):
            src, tgt = n.value, n.targets[0]
        elif isinstance(n, (ast.For, ast.comprehension)):
            src, tgt = n.iter, n.target
        if src is None:
            continue
        if norm(src) == 'args' or any(isinstance(c, ast.Call) and norm(c) == 'next(args)' for c in ast.walk(src)) \
                or (isinstance(src, ast.Call) and norm(src.func) in ('islice', 'zip') and any(norm(a) == 'args' for a in src.args)):
            for x in ast.walk(tgt):
                if isinstance(x, ast.Name):
                    out.add(x.id)
    return out


def sigil_sites(fn, from_params=()):
    """[(subscript node, name, completed?)] for `name[-1:]` / `name[-1]` on a name that comes from the argument stream
    (or from iterating over one of the parameters listed in from_params)."""
    names = _from_args(fn)
    for n in own_nodes(fn):
        src = tgt = None
        if isinstance(n, ast.Assign):
            src, tgt = n.value, n.targets[0]
        elif isinstance(n, (ast.For, ast.comprehension)):
            src, tgt = n.iter, n.target
        if src is not None and isinstance(src, ast.Name) and src.id in from_params or \
                (src is not None and isinstance(src, ast.Name) and src.id in names and isinstance(tgt, ast.Tuple)):
            for x in ast.walk(tgt):
                if isinstance(x, ast.Name):
                    names.add(x.id)
    sites = []
    for s in own_nodes(fn):
        # completed in place:  complete_name(name)[-1:]
        if isinstance(s, ast.Subscript) and isinstance(s.ctx, ast.Load) and norm(s.slice) in ('-1:', '-1') and isinstance(s.value, ast.Call) \
                and norm(s.value.func).endswith('complete_name') and s.value.args and isinstance(s.value.args[0], ast.Name) and s.value.args[0].id in names:
            sites.append((s, s.value.args[0].id, True))
        if isinstance(s, ast.Subscript) and isinstance(s.value, ast.Name) and isinstance(s.ctx, ast.Load) and norm(s.slice) in ('-1:', '-1') and s.value.id in names:
            nm = s.value.id
            done = [a for a in own_nodes(fn) if isinstance(a, ast.Assign) and 'complete_name' in norm(a.value)
                    and nm in [x.id for t in a.targets for x in ast.walk(t) if isinstance(x, ast.Name)]
                    and (nm in [x.id for x in ast.walk(a.value) if isinstance(x, ast.Name)] or 'next(args)' in norm(a.value))
                    and (a.lineno, a.col_offset) < (s.lineno, s.col_offset)]
            sites.append((s, nm, bool(done)))
    return sites


def check(ctx, rep, specs, floor, rule='names.sigil-read-from-completed-name', from_params=()):
    n = 0
    for spec in specs:
        fn = ctx.fn(spec)
        fl = ctx.flow(fn)
        for s, nm, ok in sigil_sites(fn, from_params):
            n += 1
            rep.ob(rule, '%s: %s in `%s`' % (spec.split(':')[1], norm(s), short(fl.stmt_of(s), 50)), ok,
                   'the type character is read from the name as written: a variable typed by DEFINT / DEFSTR / DEFDBL is treated as the default type', ctx.where(s))
    rep.floor(rule, n, floor, 'type-character tests on argument names')

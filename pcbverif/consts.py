"""
ConstFold: evaluate module/class-level constant expressions over the AST.

Own evaluator (no exec/eval of repo code): literals, containers, arithmetic,
bytes/str methods that are pure, names and attributes of already-folded
constants across modules, simple comprehensions over folded iterables.
Duplicate keys in dict literals are recorded (Python collapses them silently).
"""
import ast
import operator

from .source import norm, class_assigns


class Unknown(object):
    def __init__(self, why=''):
        self.why = why

    def __repr__(self):
        return '<?%s>' % self.why

    def __bool__(self):
        return False


def is_unknown(v):
    return isinstance(v, Unknown)


_BIN = {
    ast.Add: operator.add, ast.Sub: operator.sub, ast.Mult: operator.mul,
    ast.Div: operator.truediv, ast.FloorDiv: operator.floordiv, ast.Mod: operator.mod,
    ast.Pow: operator.pow, ast.LShift: operator.lshift, ast.RShift: operator.rshift,
    ast.BitAnd: operator.and_, ast.BitOr: operator.or_, ast.BitXor: operator.xor,
}
_UN = {
    ast.USub: operator.neg, ast.UAdd: operator.pos, ast.Invert: operator.invert,
    ast.Not: operator.not_,
}
_CMP = {
    ast.Eq: operator.eq, ast.NotEq: operator.ne, ast.Lt: operator.lt, ast.LtE: operator.le,
    ast.Gt: operator.gt, ast.GtE: operator.ge,
    ast.In: lambda a, b: a in b, ast.NotIn: lambda a, b: a not in b,
    ast.Is: operator.is_, ast.IsNot: operator.is_not,
}
_PURE_METHODS = {
    'upper', 'lower', 'encode', 'decode', 'split', 'join', 'strip', 'keys', 'values',
    'items', 'format', 'ljust', 'rjust', 'replace', 'union', 'get', 'copy',
}
_PURE_FUNCS = {
    'len': len, 'tuple': tuple, 'list': list, 'set': set, 'frozenset': frozenset,
    'dict': dict, 'range': range, 'reversed': lambda x: list(reversed(x)),
    'sorted': sorted, 'int': int, 'float': float, 'bytes': bytes, 'bytearray': bytearray,
    'str': str, 'chr': chr, 'ord': ord, 'min': min, 'max': max, 'sum': sum, 'abs': abs,
    'zip': lambda *a: list(zip(*a)), 'enumerate': lambda *a: list(enumerate(*a)),
    'bool': bool, 'round': round, 'pow': pow,
    # compat helpers of the repo with fixed meaning on python 3
    'int2byte': lambda i: bytes((i,)), 'iterchar': lambda s: [s[i:i+1] for i in range(len(s))],
    'iteritems': lambda d: list(d.items()), 'iterbytes': lambda s: list(s),
    'xrange': range, 'unichr': chr, 'text_type': str,
}


class ConstFold(object):
    """Constant folder bound to a SourceIndex."""

    def __init__(self, idx):
        self.idx = idx
        self.duplicates = []   # (module path, norm(key), lineno)
        self._cache = {}
        self._busy = set()

    def module_const(self, module, name):
        """Fold a module-level name."""
        key = (module.path, name)
        if key in self._cache:
            return self._cache[key]
        if key in self._busy:
            return Unknown('cycle ' + name)
        self._busy.add(key)
        try:
            if name in module.assigns:
                v = self.fold(module.assigns[name], module)
            else:
                r = self.idx.resolve_name(module, name)
                if r and r[0] == 'const':
                    v = self.fold(r[1], r[1]._module)
                else:
                    v = Unknown('name ' + name)
        finally:
            self._busy.discard(key)
        self._cache[key] = v
        return v

    def fold(self, node, module=None, env=None):
        module = module or getattr(node, '_module', None)
        env = env or {}
        try:
            return self._f(node, module, env)
        except _Bail as e:
            return Unknown(str(e))
        except Exception as e:  # arithmetic errors etc.
            return Unknown('%s: %s' % (type(e).__name__, e))

    def _f(self, n, m, env):
        if isinstance(n, ast.Constant):
            return n.value
        if isinstance(n, ast.Tuple):
            return tuple(self._seq(n.elts, m, env))
        if isinstance(n, ast.List):
            return list(self._seq(n.elts, m, env))
        if isinstance(n, ast.Set):
            return set(self._seq(n.elts, m, env))
        if isinstance(n, ast.Dict):
            d = {}
            for k, v in zip(n.keys, n.values):
                if k is None:
                    d.update(self._need(v, m, env))
                    continue
                kk = self._need(k, m, env)
                if kk in d:
                    self.duplicates.append((m.path if m else '?', norm(k), k.lineno))
                d[kk] = self._soft(v, m, env)
            return d
        if isinstance(n, ast.Name):
            if n.id in env:
                return env[n.id]
            if n.id in ('True', 'False', 'None'):
                return {'True': True, 'False': False, 'None': None}[n.id]
            # class-level constant when folding inside a class body
            cls = getattr(n, '_parent', None)
            while cls is not None and not isinstance(cls, ast.ClassDef):
                cls = getattr(cls, '_parent', None)
            if cls is not None:
                ca = class_assigns(cls)
                if n.id in ca and ca[n.id] is not n:
                    return self._need(ca[n.id], m, env)
            v = self.module_const(m, n.id)
            if is_unknown(v):
                raise _Bail(v.why)
            return v
        if isinstance(n, ast.Attribute):
            dotted = norm(n)
            r = self.idx.resolve_name(m, dotted) if m else None
            if r and r[0] == 'const':
                return self._need(r[1], r[1]._module, {})
            base = self._need(n.value, m, env)
            raise _Bail('attr ' + dotted)
        if isinstance(n, ast.BinOp):
            if type(n.op) not in _BIN:
                raise _Bail('binop')
            return _BIN[type(n.op)](self._need(n.left, m, env), self._need(n.right, m, env))
        if isinstance(n, ast.UnaryOp):
            return _UN[type(n.op)](self._need(n.operand, m, env))
        if isinstance(n, ast.BoolOp):
            vals = [self._need(v, m, env) for v in n.values]
            if isinstance(n.op, ast.And):
                r = True
                for v in vals:
                    r = v
                    if not v:
                        break
                return r
            r = False
            for v in vals:
                r = v
                if v:
                    break
            return r
        if isinstance(n, ast.Compare):
            left = self._need(n.left, m, env)
            for op, c in zip(n.ops, n.comparators):
                right = self._need(c, m, env)
                if not _CMP[type(op)](left, right):
                    return False
                left = right
            return True
        if isinstance(n, ast.IfExp):
            return self._need(n.body if self._need(n.test, m, env) else n.orelse, m, env)
        if isinstance(n, ast.Subscript):
            v = self._need(n.value, m, env)
            s = n.slice
            if isinstance(s, ast.Slice):
                lo = self._need(s.lower, m, env) if s.lower else None
                hi = self._need(s.upper, m, env) if s.upper else None
                st = self._need(s.step, m, env) if s.step else None
                return v[lo:hi:st]
            return v[self._need(s, m, env)]
        if isinstance(n, (ast.GeneratorExp, ast.ListComp, ast.SetComp, ast.DictComp)):
            return self._comp(n, m, env)
        if isinstance(n, ast.Call):
            return self._call(n, m, env)
        if isinstance(n, ast.Starred):
            raise _Bail('starred')
        raise _Bail(type(n).__name__)

    def _seq(self, elts, m, env):
        out = []
        for e in elts:
            if isinstance(e, ast.Starred):
                out.extend(self._need(e.value, m, env))
            else:
                out.append(self._need(e, m, env))
        return out

    def _need(self, n, m, env):
        v = self._f(n, m, env)
        if is_unknown(v):
            raise _Bail(v.why)
        return v

    def _soft(self, n, m, env):
        """Fold, but keep the AST node for values that cannot be folded."""
        try:
            return self._need(n, m, env)
        except (_Bail, Exception):
            return n

    def _comp(self, n, m, env):
        results = []

        def rec(gens, env):
            if not gens:
                if isinstance(n, ast.DictComp):
                    results.append((self._need(n.key, m, env), self._need(n.value, m, env)))
                else:
                    results.append(self._need(n.elt, m, env))
                return
            g = gens[0]
            for item in self._need(g.iter, m, env):
                e2 = dict(env)
                _bind(g.target, item, e2)
                if all(self._need(c, m, e2) for c in g.ifs):
                    rec(gens[1:], e2)

        rec(n.generators, env)
        if isinstance(n, ast.DictComp):
            return dict(results)
        if isinstance(n, ast.SetComp):
            return set(results)
        return results

    def _call(self, n, m, env):
        if n.keywords and not (isinstance(n.func, ast.Name) and n.func.id == 'dict'):
            kw = dict((k.arg, self._need(k.value, m, env)) for k in n.keywords)
        else:
            kw = dict((k.arg, self._need(k.value, m, env)) for k in n.keywords)
        args = self._seq(n.args, m, env)
        if isinstance(n.func, ast.Name) and n.func.id in _PURE_FUNCS and n.func.id not in env:
            return _PURE_FUNCS[n.func.id](*args, **kw)
        if isinstance(n.func, ast.Attribute):
            if n.func.attr in _PURE_METHODS:
                recv = self._need(n.func.value, m, env)
                if isinstance(recv, (bytes, str, dict, tuple, list, set, frozenset)):
                    r = getattr(recv, n.func.attr)(*args, **kw)
                    if n.func.attr in ('keys', 'values', 'items'):
                        r = list(r)
                    return r
            if norm(n.func) in ('struct.pack', 'struct.calcsize'):
                import struct
                return getattr(struct, n.func.attr)(*args)
        raise _Bail('call ' + norm(n.func))


def _bind(target, value, env):
    if isinstance(target, ast.Name):
        env[target.id] = value
    elif isinstance(target, (ast.Tuple, ast.List)):
        vals = list(value)
        for t, v in zip(target.elts, vals):
            _bind(t, v, env)
    else:
        raise _Bail('bind')


class _Bail(Exception):
    pass

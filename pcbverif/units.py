"""
UnitFlow: a small abstract interpreter over expressions with a *unit* domain.

Units:  a name from a rule-supplied set (e.g. 'ABS' absolute data-segment
address, 'OFF' offset/size; or 'REC' record index, 'BYTE' byte count),
'NUM' (dimensionless constant, compatible with everything), tuples of units,
None (unknown: nothing is checked).

Transfer (additive groups):  with A an 'absolute' unit and O its 'offset' unit
  A + O -> A    O + A -> A    A - A -> O    A - O -> A    O +- O -> O
  A + A -> error               O - A -> error
comparisons and min/max of unlike units -> error.
A conversion table gives products:  (REC * BYTE/REC) etc. are supplied by the
rule as `mul_rules`.

Seeds are a frozen table of expression texts (matched on the normalised text
or its suffix) and (function, parameter) pairs.  Tuple stores into typed
containers (`self._array_memory[name] = (a, b)`) carry units to readers.
"""
import ast

from .source import norm, enclosing_class
from .flow import own_nodes

NUM = 'NUM'


class UnitError(object):
    def __init__(self, node, msg, fn):
        self.node = node
        self.msg = msg
        self.fn = fn


class UnitFlow(object):

    def __init__(self, absolute='ABS', offset='OFF', seeds=None, params=None, containers=None, mul_rules=None, attr_seeds=None):
        self.A = absolute
        self.O = offset
        self.seeds = seeds or {}            # text (exact) or '*suffix' -> unit
        self.params = params or {}          # (func name, param) -> unit
        self.containers = containers or {}  # container text suffix -> unit or tuple of units (element type)
        self.mul_rules = mul_rules or {}    # (unit, unit) -> unit for Mult ; ('/', u, v) for FloorDiv
        self.errors = []
        self.checked = 0

    # -- seeds ---------------------------------------------------------------

    def seed(self, text):
        if text in self.seeds:
            return self.seeds[text]
        for k, v in self.seeds.items():
            if k.startswith('*') and text.endswith(k[1:]):
                return v
        return None

    def container(self, text):
        for k, v in self.containers.items():
            if text == k or text.endswith(k):
                return v
        return None

    # -- evaluation ------------------------------------------------------------

    def unit(self, node, env, fn):
        if isinstance(node, ast.Constant):
            if isinstance(node.value, (int, float)) and not isinstance(node.value, bool):
                return NUM
            return None
        t = norm(node)
        if isinstance(node, (ast.Name, ast.Attribute, ast.Call)):
            s = self.seed(t)
            if s is not None:
                return s
        if isinstance(node, ast.Name):
            return env.get(node.id)
        if isinstance(node, ast.UnaryOp) and isinstance(node.op, (ast.USub, ast.UAdd)):
            return self.unit(node.operand, env, fn)
        if isinstance(node, ast.Tuple):
            return tuple(self.unit(e, env, fn) for e in node.elts)
        if isinstance(node, ast.Subscript):
            c = self.container(norm(node.value))
            if c is not None:
                return c
            base = self.unit(node.value, env, fn)
            if isinstance(base, tuple) and isinstance(node.slice, ast.Constant) and isinstance(node.slice.value, int) \
                    and -len(base) <= node.slice.value < len(base):
                return base[node.slice.value]
            return None
        if isinstance(node, ast.IfExp):
            return self.join(self.unit(node.body, env, fn), self.unit(node.orelse, env, fn), node, fn, 'conditional branches')
        if isinstance(node, ast.Call):
            f = norm(node.func)
            cs = self.seed('call:' + f)
            if cs is not None:
                return cs
            if f in ('max', 'min') and node.args:
                u = None
                for a in node.args:
                    u = self.join(u, self.unit(a, env, fn), node, fn, f + '() arguments')
                return u
            if f in ('len', 'ord', 'int', 'abs', 'round'):
                return self.O if f == 'len' else (self.unit(node.args[0], env, fn) if node.args else None)
            return None
        if isinstance(node, ast.BinOp):
            l, r = self.unit(node.left, env, fn), self.unit(node.right, env, fn)
            if isinstance(node.op, ast.Add):
                return self.add(l, r, node, fn)
            if isinstance(node.op, ast.Sub):
                return self.sub(l, r, node, fn)
            if isinstance(node.op, ast.Mult):
                if (l, r) in self.mul_rules:
                    return self.mul_rules[(l, r)]
                if (r, l) in self.mul_rules:
                    return self.mul_rules[(r, l)]
                if l == NUM:
                    return r if r != self.A else self.bad(node, fn, 'an absolute quantity is scaled')
                if r == NUM:
                    return l if l != self.A else self.bad(node, fn, 'an absolute quantity is scaled')
                if l is None or r is None:
                    return None
                if self.A in (l, r):
                    return self.bad(node, fn, 'an absolute quantity is multiplied')
                return self.O if l == r == self.O else None
            if isinstance(node.op, (ast.FloorDiv, ast.Mod, ast.Div)):
                key = ('/', l, r)
                if key in self.mul_rules:
                    return self.mul_rules[key]
                if isinstance(node.op, ast.Mod):
                    return l if r in (NUM, l) else None
                return l if r == NUM else None
            return None
        return None

    def bad(self, node, fn, msg):
        self.errors.append(UnitError(node, msg, fn))
        return None

    def compatible(self, a, b):
        if a is None or b is None or a == NUM or b == NUM:
            return True
        if isinstance(a, tuple) or isinstance(b, tuple):
            return isinstance(a, tuple) and isinstance(b, tuple) and len(a) == len(b) and all(self.compatible(x, y) for x, y in zip(a, b))
        return a == b

    def join(self, a, b, node, fn, what):
        if a is None or a == NUM:
            return b if b is not None else a
        if b is None or b == NUM:
            return a
        if not self.compatible(a, b):
            self.bad(node, fn, '%s mix %s and %s' % (what, a, b))
            return None
        return a

    def add(self, l, r, node, fn):
        if l is None or r is None:
            return None
        if l == NUM:
            return r
        if r == NUM:
            return l
        if l == self.A and r == self.A:
            return self.bad(node, fn, 'two absolute quantities (%s + %s) are added' % (l, r))
        if self.A in (l, r) and self.O in (l, r):
            return self.A
        if l == r:
            return l
        return self.bad(node, fn, 'unlike units %s + %s' % (l, r))

    def sub(self, l, r, node, fn):
        if l is None or r is None:
            return None
        if r == NUM:
            return l
        if l == NUM:
            return r if r != self.A else None
        if l == self.A and r == self.A:
            return self.O
        if l == self.A and r == self.O:
            return self.A
        if l == self.O and r == self.A:
            return self.bad(node, fn, 'an absolute quantity is subtracted from an offset (%s - %s)' % (l, r))
        if l == r:
            return l
        return self.bad(node, fn, 'unlike units %s - %s' % (l, r))

    # -- function analysis -------------------------------------------------------

    def run(self, fn):
        """Infer local units (flow-insensitive join), then check comparisons/additions. Returns env."""
        env = {}
        for a in fn.args.args:
            u = self.params.get((fn.name, a.arg))
            if u is not None:
                env[a.arg] = u
        n_err = len(self.errors)
        for _ in range(3):
            del self.errors[n_err:]
            for n in own_nodes(fn):
                if isinstance(n, ast.Assign):
                    u = self.unit(n.value, env, fn)
                    for t in n.targets:
                        self.bind(t, u, env, n, fn)
                elif isinstance(n, ast.AugAssign) and isinstance(n.target, ast.Name):
                    cur = env.get(n.target.id)
                    r = self.unit(n.value, env, fn)
                    if isinstance(n.op, ast.Add):
                        env[n.target.id] = self.add(cur, r, n, fn) or cur
                    elif isinstance(n.op, ast.Sub):
                        env[n.target.id] = self.sub(cur, r, n, fn) or cur
                elif isinstance(n, (ast.For, ast.comprehension)):
                    it = n.iter
                    u = None
                    if isinstance(it, ast.Call) and norm(it.func) in ('iteritems',) and it.args:
                        c = self.container(norm(it.args[0]))
                        key = self.container('key:' + norm(it.args[0]))
                        if c is not None:
                            u = (key, c)
                    elif isinstance(it, ast.Call) and isinstance(it.func, ast.Attribute) and it.func.attr == 'items':
                        c = self.container(norm(it.func.value))
                        key = self.container('key:' + norm(it.func.value))
                        if c is not None:
                            u = (key, c)
                    else:
                        key = self.container('key:' + norm(it))
                        if key is not None:
                            u = key
                    if u is not None:
                        self.bind(n.target, u, env, n, fn)
        # checks
        for n in own_nodes(fn):
            if isinstance(n, ast.Compare):
                ops = [n.left] + list(n.comparators)
                us = [self.unit(o, env, fn) for o in ops]
                for (a, ua), (b, ub), op in zip(zip(ops, us), zip(ops[1:], us[1:]), n.ops):
                    if isinstance(op, (ast.In, ast.NotIn, ast.Is, ast.IsNot)):
                        continue
                    if ua is not None and ub is not None and ua != NUM and ub != NUM:
                        self.checked += 1
                    if not self.compatible(ua, ub):
                        self.bad(n, fn, 'comparison of unlike units: %s is %s but %s is %s' % (norm(a), ua, norm(b), ub))
        # de-duplicate
        seen = set()
        out = []
        for e in self.errors:
            k = (id(e.node), e.msg)
            if k not in seen:
                seen.add(k)
                out.append(e)
        self.errors = out
        return env

    def bind(self, target, u, env, node, fn):
        if isinstance(target, ast.Name):
            if u is None:
                return
            cur = env.get(target.id)
            if cur is None or cur == NUM:
                env[target.id] = u
            elif u != NUM and not self.compatible(cur, u):
                self.bad(node, fn, 'variable %s holds both %s and %s' % (target.id, cur, u))
        elif isinstance(target, (ast.Tuple, ast.List)) and isinstance(u, tuple) and len(u) == len(target.elts):
            for t, x in zip(target.elts, u):
                self.bind(t, x, env, node, fn)
        elif isinstance(target, ast.Subscript):
            c = self.container(norm(target.value))
            if c is not None and u is not None and not self.compatible(c, u):
                self.bad(node, fn, 'stores %s into %s which holds %s' % (u, norm(target.value), c))

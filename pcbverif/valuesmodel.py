"""
Shared structural model of pcbasic/basic/values/values.py and numbers.py:
classification of operator callbacks by their core operation, comparison
semantics derived from the two primitives, type-gate analysis (rule E8).
"""
import ast

from .source import norm, short, class_methods, AnalysisError
from .flow import own_nodes, analyse, atoms

VALUES = 'pcbasic/basic/values/values.py'
NUMBERS = 'pcbasic/basic/values/numbers.py'
STRINGS = 'pcbasic/basic/values/strings.py'
OPERATORS = 'pcbasic/basic/parser/operators.py'

GATES = ('to_integer', 'to_single', 'to_double', 'pass_number', 'pass_string', 'match_types', 'to_int', 'to_type')
NUMERIC_CLASSES = ('numbers.Number', 'numbers.Integer', 'numbers.Float', 'numbers.Single', 'numbers.Double',
                   'Number', 'Integer', 'Float', 'Single', 'Double')
STRING_CLASSES = ('strings.String', 'String')


def operator_tables(ctx):
    """Fold PRECEDENCE, UNARY, BINARY: returns (prec dict, unary {tok: value-node}, binary {tok: value-node})."""
    m = ctx.mod(OPERATORS)
    prec = ctx.const(OPERATORS, 'PRECEDENCE')
    out = []
    for name in ('UNARY', 'BINARY'):
        node = m.assigns.get(name)
        if not isinstance(node, ast.Dict):
            raise AnalysisError('%s:%s is not a dict literal' % (OPERATORS, name))
        d = {}
        for k, v in zip(node.keys, node.values):
            kk = ctx.cf.fold(k, m)
            if not isinstance(kk, bytes):
                raise AnalysisError('cannot fold key %s of %s' % (norm(k), name))
            if kk in d:
                ctx.cf.duplicates.append((OPERATORS, norm(k), k.lineno))
            d[kk] = (k, v)
        out.append(d)
    return prec, out[0], out[1]


def token_names(ctx):
    """bytes value -> constant name in tokens.py (first name wins), for reporting."""
    m = ctx.mod('pcbasic/basic/base/tokens.py')
    names = {}
    for name, node in m.assigns.items():
        if isinstance(node, ast.Constant) and isinstance(node.value, bytes) and not name.startswith('KW_'):
            names.setdefault(node.value, name)
    return names


def tokname(ctx, tok, _cache={}):
    names = token_names(ctx)
    if tok in names:
        return names[tok]
    # combined
    return '+'.join(names.get(tok[i:i + 1], repr(tok[i:i + 1])) for i in range(len(tok)))


def resolve_callback(ctx, value_node):
    """values.gte -> FunctionDef, lambda -> Lambda node, else None."""
    if isinstance(value_node, ast.Lambda):
        return value_node
    r = ctx.idx.resolve_name(value_node._module, norm(value_node))
    if r and r[0] == 'func':
        return r[1]
    return None


def returns(fn):
    return [n for n in own_nodes(fn) if isinstance(n, ast.Return)]


def comparison_semantics(ctx, fn):
    """
    Derive the relation a comparison callback computes from its body:
    returns one of 'EQ','NE','GT','LE','LT','GE' or None.
    Shape: return <x>.from_bool([not] _bool_eq|_bool_gt(a, b)) with (a, b) a permutation of the parameters.
    """
    params = [a.arg for a in fn.args.args]
    rets = returns(fn)
    if len(rets) != 1 or len(params) != 2:
        return None
    v = rets[0].value
    if not (isinstance(v, ast.Call) and norm(v.func).endswith('.from_bool') and len(v.args) == 1):
        return None
    inner = v.args[0]
    neg = False
    while isinstance(inner, ast.UnaryOp) and isinstance(inner.op, ast.Not):
        neg = not neg
        inner = inner.operand
    if not isinstance(inner, ast.Call) or len(inner.args) != 2:
        return None
    prim = primitive_kind(ctx, inner.func)
    args = [norm(a) for a in inner.args]
    if args == params:
        swapped = False
    elif args == params[::-1]:
        swapped = True
    else:
        return None
    if prim == 'eq':
        return 'NE' if neg else 'EQ'
    if prim == 'gt':
        if not swapped:
            return 'LE' if neg else 'GT'
        return 'GE' if neg else 'LT'
    return None


def primitive_kind(ctx, func_node):
    """'eq' / 'gt' if the called helper is match_types + left.eq(right) / left.gt(right)."""
    r = ctx.idx.resolve_name(func_node._module, norm(func_node))
    if not r or r[0] != 'func':
        return None
    fn = r[1]
    params = [a.arg for a in fn.args.args]
    if len(params) != 2:
        return None
    has_match = False
    kind = None
    for st in fn.body:
        if isinstance(st, ast.Assign) and isinstance(st.value, ast.Call) and norm(st.value.func) == 'match_types' \
                and [norm(a) for a in st.value.args] == params \
                and isinstance(st.targets[0], ast.Tuple) and [norm(e) for e in st.targets[0].elts] == params:
            has_match = True
        if isinstance(st, ast.Return) and isinstance(st.value, ast.Call) and isinstance(st.value.func, ast.Attribute):
            c = st.value
            if norm(c.func.value) == params[0] and [norm(a) for a in c.args] == [params[1]]:
                if c.func.attr in ('eq', 'gt'):
                    kind = c.func.attr
    return kind if has_match else None


CORE_METHODS = {
    'add': 'ADD', 'iadd': 'ADD', 'isub': 'SUB', 'imul': 'MUL', 'idiv': 'DIV',
    'idiv_int': 'INTDIV', 'imod': 'MOD', 'ipow_int': 'POW', 'ineg': 'NEG',
}


def core_operation(ctx, fn):
    """
    Classify an operator callback by what it computes: the set of core
    operations found in its body (method calls on values, Python bit operators).
    """
    if isinstance(fn, ast.Lambda):
        if norm(fn.body) in [a.arg for a in fn.args.args]:
            return {'IDENTITY'}
        return {'?'}
    ops = set()
    sem = comparison_semantics(ctx, fn)
    if sem:
        return {sem}
    for n in own_nodes(fn):
        if isinstance(n, ast.Call) and isinstance(n.func, ast.Attribute) and n.func.attr in CORE_METHODS:
            ops.add(CORE_METHODS[n.func.attr])
        if isinstance(n, ast.Lambda) and isinstance(n.body, ast.BinOp) and isinstance(n.body.op, ast.Pow):
            ops.add('POW')
        if isinstance(n, ast.Return) and n.value is not None:
            # bitwise: shape of the from_int argument
            for c in own_nodes(n.value):
                if isinstance(c, ast.Call) and isinstance(c.func, ast.Attribute) and c.func.attr == 'from_int' and c.args:
                    b = bit_shape(c.args[0], [a.arg for a in fn.args.args])
                    if b:
                        ops.add(b)
    return ops or {'?'}


def bit_shape(expr, params):
    """Shape of a bitwise expression over the operand parameters: AND OR XOR EQV IMP NOT."""
    def operand(e):
        """which parameter an operand expression reads"""
        names = [n.id for n in ast.walk(e) if isinstance(n, ast.Name) and n.id in params]
        return names[0] if len(set(names)) == 1 else None

    def inv(e):
        while isinstance(e, ast.UnaryOp) and isinstance(e.op, ast.Invert):
            return e.operand
        return None

    if isinstance(expr, ast.UnaryOp) and isinstance(expr.op, ast.Invert):
        inner = expr.operand
        if isinstance(inner, ast.BinOp) and isinstance(inner.op, ast.BitXor):
            if operand(inner.left) == params[0] and operand(inner.right) == params[-1]:
                return 'EQV'
        if operand(inner) and not isinstance(inner, ast.BinOp):
            return 'NOT'
        return None
    if isinstance(expr, ast.BinOp):
        l, r = expr.left, expr.right
        if isinstance(expr.op, ast.BitOr) and inv(l) is not None and inv(r) is None:
            if operand(inv(l)) == params[0] and operand(r) == params[-1] and len(params) == 2:
                return 'IMP'
            return None
        if inv(l) is not None or inv(r) is not None:
            return None
        if len(params) == 2 and {operand(l), operand(r)} == set(params):
            return {ast.BitAnd: 'AND', ast.BitOr: 'OR', ast.BitXor: 'XOR'}.get(type(expr.op))
    return None


def value_base_methods(ctx):
    """Methods defined on numbers.Value (safe to call on any value incl. strings)."""
    cls = ctx.cls(NUMBERS + ':Value')
    return set(class_methods(cls)) | {'_values', '_buffer'}


def common_methods(ctx):
    """Methods defined on both Number hierarchy and String (same name)."""
    s = set(class_methods(ctx.cls(STRINGS + ':String')))
    n = set()
    for c in ('Number', 'Integer', 'Float'):
        n |= set(class_methods(ctx.cls(NUMBERS + ':' + c)))
    return s & n


def type_gate_findings(ctx, fn):
    """
    Rule E8: every attribute use `p.attr` of an operand parameter p whose attr is
    not defined on the Value base class must be dominated by a type gate.
    Returns (uses_checked, [(node, param, attr)]) of ungated uses.
    """
    if isinstance(fn, ast.Lambda):
        return 0, []
    base = value_base_methods(ctx) | common_methods(ctx)
    params = [a.arg for a in fn.args.args if a.arg not in ('self', 'args')]
    if not params:
        return 0, []

    def events(node):
        ev = set()
        for n in own_nodes(node):
            # p = gate(p...)  or  a, b = match_types(a, b)
            if isinstance(n, ast.Assign) and isinstance(n.value, ast.Call) and norm(n.value.func).split('.')[-1] in GATES:
                for t in ast.walk(n.targets[0]):
                    if isinstance(t, ast.Name):
                        ev.add('gated:' + t.id)
            # bare gate statement: pass_number(p)
            if isinstance(n, ast.Expr) and isinstance(n.value, ast.Call) and norm(n.value.func).split('.')[-1] in GATES:
                for a in n.value.args:
                    if isinstance(a, ast.Name):
                        ev.add('gated:' + a.id)
        return ev

    fl = analyse(fn, events)
    bad, checked = [], 0
    for n in own_nodes(fn):
        if isinstance(n, ast.Attribute) and isinstance(n.value, ast.Name) and n.value.id in params:
            p, attr = n.value.id, n.attr
            if attr in base:
                continue
            checked += 1
            if not fl.reached(n):
                continue
            if 'gated:' + p in fl.must(n):
                continue
            ok = False
            for f in fl.facts(n):
                c = f.cond
                if isinstance(c, ast.Call) and norm(c.func) == 'isinstance' and len(c.args) == 2 and norm(c.args[0]) == p:
                    cls = norm(c.args[1])
                    if f.pol and cls in NUMERIC_CLASSES:
                        ok = True
                    if (not f.pol) and cls in STRING_CLASSES:
                        ok = True
            if not ok:
                bad.append((n, p, attr))
    return checked, bad


# ---------------------------------------------------------------------------
# mutators: methods of the value classes that change the receiver's buffer

VALUE_CLASSES = [
    (NUMBERS, 'Value'), (NUMBERS, 'Number'), (NUMBERS, 'Integer'), (NUMBERS, 'Float'),
    (NUMBERS, 'Single'), (NUMBERS, 'Double'), (STRINGS, 'String'),
]


def mutator_methods(ctx):
    """
    Fixpoint: a method mutates its receiver if it assigns into self._buffer,
    packs into it, or calls another mutator on `self` (aliases `x = y`
    at class level are followed).
    Returns dict method-name -> set of class names where it mutates.
    """
    methods = {}
    aliases = {}
    for path, cname in VALUE_CLASSES:
        cls = ctx.cls(path + ':' + cname)
        for name, fn in class_methods(cls).items():
            methods.setdefault(name, []).append((cname, fn))
        for st in cls.body:
            if isinstance(st, ast.Assign) and isinstance(st.value, ast.Name):
                for t in st.targets:
                    if isinstance(t, ast.Name):
                        aliases[t.id] = st.value.id
    mut = {}
    changed = True

    def direct(fn):
        for n in own_nodes(fn):
            if isinstance(n, (ast.Assign, ast.AugAssign)):
                tgts = n.targets if isinstance(n, ast.Assign) else [n.target]
                for t in tgts:
                    if isinstance(t, ast.Subscript) and norm(t.value) == 'self._buffer':
                        return True
            if isinstance(n, ast.Call) and norm(n.func) == 'struct.pack_into' and len(n.args) > 1 \
                    and norm(n.args[1]) == 'self._buffer':
                return True
        return False

    for name, impls in methods.items():
        for cname, fn in impls:
            if name not in ('__init__', '__setstate__', '__getstate__') and direct(fn):
                mut.setdefault(name, set()).add(cname)
    while changed:
        changed = False
        for name, impls in methods.items():
            if name in ('__init__', '__setstate__', '__getstate__'):
                continue
            for cname, fn in impls:
                if cname in mut.get(name, ()):
                    continue
                for n in own_nodes(fn):
                    if isinstance(n, ast.Call) and isinstance(n.func, ast.Attribute) and norm(n.func.value) == 'self' \
                            and aliases.get(n.func.attr, n.func.attr) in mut:
                        mut.setdefault(name, set()).add(cname)
                        changed = True
                        break
    for a, target in aliases.items():
        if target in mut:
            mut[a] = set(mut[target])
    return mut


FRESH_CALLS = ('clone', 'new', 'new_integer', 'new_single', 'new_double', 'new_string')
FRESH_CTORS = ('Integer', 'Single', 'Double', 'String', 'numbers.Integer', 'numbers.Single', 'numbers.Double',
               'strings.String', 'floatcls')


def receiver_is_fresh(recv):
    """The receiver chain contains an allocation: .clone(), .new(), new_*(), a class constructor call."""
    n = recv
    while True:
        if isinstance(n, ast.Call):
            f = n.func
            if isinstance(f, ast.Attribute) and f.attr in FRESH_CALLS:
                return True
            if norm(f) in FRESH_CTORS:
                return True
            if isinstance(f, ast.Subscript) and norm(f.value) in ('TYPE_TO_CLASS', 'SIZE_TO_CLASS'):
                return True
            if isinstance(f, ast.Attribute):
                n = f.value
                continue
            return False
        if isinstance(n, ast.Attribute):
            n = n.value
            continue
        return False

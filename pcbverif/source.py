"""
SourceIndex: parse every module of /repo/pcbasic from a *source provider*
(working tree or in-memory overlay) and give rules addressable access to
modules, classes, functions, decorators and import aliases.

Nothing from /repo is imported or executed.
"""
import ast
import os
import hashlib

REPO = os.environ.get('PCBVERIF_REPO', '/repo')
PKG = 'pcbasic'


class AnalysisError(Exception):
    """Analysis could not be carried out (exit 2, never a violation)."""


class AnchorMissing(AnalysisError):
    """A construct the rule is anchored in no longer exists."""


def norm(node):
    """Normalised source text of a node (position- and layout-independent)."""
    if node is None:
        return 'None'
    if isinstance(node, list):
        return '; '.join(norm(n) for n in node)
    try:
        return ast.unparse(node)
    except Exception:  # pragma: no cover
        return ast.dump(node)


def short(node, n=110):
    s = ' '.join(norm(node).split())
    return s if len(s) <= n else s[:n - 3] + '...'


class Module(object):
    """One parsed module."""

    def __init__(self, relpath, text):
        self.path = relpath
        self.text = text
        try:
            self.tree = ast.parse(text, filename=relpath)
        except SyntaxError as e:
            raise AnalysisError('cannot parse %s: %s' % (relpath, e))
        # analyse an alpha-equivalent program whose locals carry the names the rules were written with
        from . import alpha
        self.alpha_renamed = alpha.normalise(self.tree, relpath)
        # dotted module name
        name = relpath[:-3].replace('/', '.')
        if name.endswith('.__init__'):
            name = name[:-9]
            self.is_pkg = True
        else:
            self.is_pkg = False
        self.name = name
        self.package = name if self.is_pkg else name.rsplit('.', 1)[0]
        # parents
        for parent in ast.walk(self.tree):
            for child in ast.iter_child_nodes(parent):
                child._parent = parent
        self.tree._parent = None
        for n in ast.walk(self.tree):
            n._module = self
        # top-level tables
        self.classes = {}
        self.functions = {}
        self.assigns = {}    # name -> value node (last top-level assignment)
        self.imports = {}    # alias -> dotted target ('pcbasic.basic.base.error' or 'pkg.mod:name')
        self.star_imports = []   # dotted module names imported with *
        self._index()

    def _resolve_rel(self, level, module):
        if level == 0:
            return module or ''
        base = self.package.split('.')
        if level > 1:
            base = base[:-(level - 1)]
        if module:
            base = base + module.split('.')
        return '.'.join(base)

    def _index(self):
        for st in self._toplevel(self.tree.body):
            if isinstance(st, ast.ClassDef):
                self.classes[st.name] = st
            elif isinstance(st, (ast.FunctionDef, ast.AsyncFunctionDef)):
                self.functions[st.name] = st
            elif isinstance(st, ast.Assign):
                for t in st.targets:
                    if isinstance(t, ast.Name):
                        self.assigns[t.id] = st.value
            elif isinstance(st, ast.Import):
                for a in st.names:
                    self.imports[a.asname or a.name.split('.')[0]] = (
                        a.name if a.asname else a.name.split('.')[0]
                    )
            elif isinstance(st, ast.ImportFrom):
                base = self._resolve_rel(st.level, st.module)
                for a in st.names:
                    if a.name == '*':
                        self.star_imports.append(base)
                    else:
                        self.imports[a.asname or a.name] = base + ':' + a.name

    def _toplevel(self, body):
        """Top-level statements, descending into if/try at module level."""
        for st in body:
            if isinstance(st, ast.If):
                for x in self._toplevel(st.body):
                    yield x
                for x in self._toplevel(st.orelse):
                    yield x
            elif isinstance(st, ast.Try):
                for x in self._toplevel(st.body):
                    yield x
                for h in st.handlers:
                    for x in self._toplevel(h.body):
                        yield x
                for x in self._toplevel(st.orelse):
                    yield x
            else:
                yield st


def class_methods(cls):
    return dict(
        (st.name, st) for st in cls.body
        if isinstance(st, (ast.FunctionDef, ast.AsyncFunctionDef))
    )


def class_assigns(cls):
    out = {}
    for st in cls.body:
        if isinstance(st, ast.Assign):
            for t in st.targets:
                if isinstance(t, ast.Name):
                    out[t.id] = st.value
    return out


def decorators(fn):
    return [norm(d) for d in fn.decorator_list]


def enclosing(node, kinds):
    """Nearest ancestor of one of the given kinds."""
    p = getattr(node, '_parent', None)
    while p is not None and not isinstance(p, kinds):
        p = getattr(p, '_parent', None)
    return p


def enclosing_function(node):
    return enclosing(node, (ast.FunctionDef, ast.AsyncFunctionDef, ast.Lambda))


def enclosing_class(node):
    return enclosing(node, (ast.ClassDef,))


def qualname(node):
    """path:Class.func for a def/class node (or the def enclosing any node)."""
    if not isinstance(node, (ast.FunctionDef, ast.AsyncFunctionDef, ast.ClassDef)):
        node = enclosing(node, (ast.FunctionDef, ast.AsyncFunctionDef, ast.ClassDef))
        if node is None:
            return '<module>'
    parts = []
    n = node
    while n is not None:
        if isinstance(n, (ast.FunctionDef, ast.AsyncFunctionDef, ast.ClassDef)):
            parts.append(n.name)
        n = getattr(n, '_parent', None)
    return '%s:%s' % (node._module.path, '.'.join(reversed(parts)))


class SourceIndex(object):
    """All modules of the package, from disk plus optional overlay."""

    def __init__(self, repo=None, overlay=None, base=None):
        self.repo = repo or (base.repo if base else REPO)
        self.overlay = dict(overlay or {})
        self.modules = {}      # relpath -> Module
        self.by_name = {}      # dotted -> Module
        self.digest = hashlib.sha256()
        root = os.path.join(self.repo, PKG)
        if not os.path.isdir(root):
            raise AnalysisError('no package at %s' % root)
        paths = []
        for dp, dns, fns in os.walk(root):
            dns.sort()
            for fn in sorted(fns):
                if fn.endswith('.py'):
                    paths.append(os.path.relpath(os.path.join(dp, fn), self.repo))
        for p in self.overlay:
            if p not in paths:
                paths.append(p)
        for rel in sorted(paths):
            if base is not None and rel not in self.overlay and rel in base.modules:
                m = base.modules[rel]
                self.digest.update(rel.encode() + b'\0' + m.text.encode('utf-8', 'replace'))
                self.modules[rel] = m
                self.by_name[m.name] = m
                continue
            if rel in self.overlay:
                text = self.overlay[rel]
            else:
                with open(os.path.join(self.repo, rel), 'rb') as f:
                    text = f.read().decode('utf-8', 'replace')
            self.digest.update(rel.encode() + b'\0' + text.encode('utf-8', 'replace'))
            m = Module(rel, text)
            self.modules[rel] = m
            self.by_name[m.name] = m
        self._mro_cache = {}
        self._class_table = None

    # -- addressing ---------------------------------------------------------

    def module(self, path):
        """Module by relative path ('pcbasic/basic/x.py')."""
        try:
            return self.modules[path]
        except KeyError:
            raise AnchorMissing('module %s' % path)

    def locate(self, spec):
        """'pcbasic/basic/x.py:Class.method' -> AST node, or AnchorMissing."""
        path, _, dotted = spec.partition(':')
        m = self.module(path)
        if not dotted:
            return m.tree
        parts = dotted.split('.')
        node = None
        if parts[0] in m.classes:
            node = m.classes[parts[0]]
        elif parts[0] in m.functions:
            node = m.functions[parts[0]]
        elif parts[0] in m.assigns:
            node = m.assigns[parts[0]]
        else:
            raise AnchorMissing(spec)
        for p in parts[1:]:
            found = None
            for st in getattr(node, 'body', []):
                if isinstance(st, (ast.FunctionDef, ast.AsyncFunctionDef, ast.ClassDef)) and st.name == p:
                    found = st
                elif isinstance(st, ast.Assign):
                    for t in st.targets:
                        if isinstance(t, ast.Name) and t.id == p:
                            found = st.value
            if found is None:
                raise AnchorMissing(spec)
            node = found
        return node

    def has(self, spec):
        try:
            self.locate(spec)
            return True
        except AnchorMissing:
            return False

    # -- classes ------------------------------------------------------------

    def class_table(self):
        """(module path, class name) -> ClassDef for all classes."""
        if self._class_table is None:
            t = {}
            for m in self.modules.values():
                for n in ast.walk(m.tree):
                    if isinstance(n, ast.ClassDef):
                        t[(m.path, n.name)] = n
            self._class_table = t
        return self._class_table

    def resolve_name(self, module, name):
        """
        Resolve a bare or dotted name used in `module` to a definition:
        returns ('class'|'func'|'module'|'const', node-or-Module) or None.
        """
        parts = name.split('.')
        cur = ('module', module)
        first = True
        for p in parts:
            kind, obj = cur
            if kind != 'module':
                if kind == 'class':
                    meths = class_methods(obj)
                    if p in meths:
                        cur = ('func', meths[p])
                        continue
                    ca = class_assigns(obj)
                    if p in ca:
                        cur = ('const', ca[p])
                        continue
                return None
            m = obj
            if p in m.classes:
                cur = ('class', m.classes[p])
            elif p in m.functions:
                cur = ('func', m.functions[p])
            elif p in m.imports:
                tgt = m.imports[p]
                cur = self._follow_import(tgt)
                if cur is None:
                    return None
            elif p in m.assigns:
                cur = ('const', m.assigns[p])
            else:
                cur = None
                for star in reversed(m.star_imports):
                    sm = self.by_name.get(star)
                    if sm is not None and sm is not m:
                        cur = self.resolve_name(sm, p)
                        if cur is not None:
                            break
                if cur is None:
                    # submodule of a package
                    sub = self.by_name.get(m.name + '.' + p)
                    if sub is not None:
                        cur = ('module', sub)
                    else:
                        return None
            first = False
        return cur

    def _follow_import(self, tgt, depth=0):
        if depth > 6:
            return None
        if ':' in tgt:
            base, name = tgt.split(':', 1)
            sub = self.by_name.get(base + '.' + name)
            if sub is not None:
                return ('module', sub)
            m = self.by_name.get(base)
            if m is None:
                return None
            if name in m.classes:
                return ('class', m.classes[name])
            if name in m.functions:
                return ('func', m.functions[name])
            if name in m.imports:
                return self._follow_import(m.imports[name], depth + 1)
            if name in m.assigns:
                return ('const', m.assigns[name])
            for star in reversed(m.star_imports):
                sm = self.by_name.get(star)
                if sm is not None and sm is not m:
                    r = self.resolve_name(sm, name)
                    if r is not None:
                        return r
            return None
        m = self.by_name.get(tgt)
        if m is not None:
            return ('module', m)
        return None

    def bases(self, cls):
        """Resolved base ClassDefs of a class."""
        out = []
        for b in cls.bases:
            r = self.resolve_name(cls._module, norm(b))
            if r and r[0] == 'class':
                out.append(r[1])
        return out

    def mro(self, cls):
        key = id(cls)
        if key not in self._mro_cache:
            seen, order = set(), []
            def rec(c):
                if id(c) in seen:
                    return
                seen.add(id(c))
                order.append(c)
                for b in self.bases(c):
                    rec(b)
            rec(cls)
            self._mro_cache[key] = order
        return self._mro_cache[key]

    def subclasses(self, cls):
        cache = self.__dict__.setdefault('_sub_cache', {})
        if id(cls) not in cache:
            out = []
            for c in self.class_table().values():
                if c is not cls and cls in self.mro(c):
                    out.append(c)
            cache[id(cls)] = out
        return cache[id(cls)]

    def methods_named(self, name):
        """All methods with this name in any class (cached)."""
        cache = self.__dict__.setdefault('_meth_cache', None)
        if cache is None:
            cache = {}
            for c in self.class_table().values():
                for mname, m in class_methods(c).items():
                    cache.setdefault(mname, []).append(m)
            self._meth_cache = cache
        return cache.get(name, [])

    def find_method(self, cls, name):
        for c in self.mro(cls):
            m = class_methods(c)
            if name in m:
                return m[name]
        return None

    def functions(self, prefix=''):
        """All function/method defs in modules whose path starts with prefix."""
        for path in sorted(self.modules):
            if path.startswith(prefix):
                for n in ast.walk(self.modules[path].tree):
                    if isinstance(n, (ast.FunctionDef, ast.AsyncFunctionDef)):
                        yield n

"""
Ctx: what a rule module gets -- the SourceIndex plus lazily built engines and
small helpers shared by the rules.
"""
import ast

from .source import (
    SourceIndex, AnchorMissing, AnalysisError, norm, short, qualname,
    class_methods, class_assigns, enclosing_function, enclosing_class,
)
from .consts import ConstFold, is_unknown
from . import flow as _flow

ERR_ALIASES = {'STX': 'SYNTAX_ERROR', 'IFC': 'ILLEGAL_FUNCTION_CALL'}


class Ctx(object):

    def __init__(self, idx, tier='quick'):
        self.idx = idx
        self.tier = tier
        self.cf = ConstFold(idx)
        self._flow = {}
        self._cg = None
        self._wiring = None

    # -- addressing ---------------------------------------------------------

    def fn(self, spec):
        n = self.idx.locate(spec)
        if not isinstance(n, (ast.FunctionDef, ast.AsyncFunctionDef)):
            raise AnchorMissing('%s is not a function' % spec)
        return n

    def cls(self, spec):
        n = self.idx.locate(spec)
        if not isinstance(n, ast.ClassDef):
            raise AnchorMissing('%s is not a class' % spec)
        return n

    def mod(self, path):
        return self.idx.module(path)

    def where(self, node):
        return '%s (line %s)' % (qualname(node), getattr(node, 'lineno', '?'))

    def const(self, path, name):
        """Fold module-level constant; AnalysisError if it cannot be folded."""
        m = self.idx.module(path)
        if '.' in name:
            node = self.idx.locate(path + ':' + name)
            v = self.cf.fold(node, m)
        else:
            if name not in m.assigns:
                raise AnchorMissing('%s:%s' % (path, name))
            v = self.cf.module_const(m, name)
        if is_unknown(v):
            raise AnalysisError('cannot fold %s:%s (%s)' % (path, name, v.why))
        return v

    def fold(self, node):
        return self.cf.fold(node, node._module)

    # -- flow ---------------------------------------------------------------

    def flow(self, fn, events=None, key=None):
        if events is None:
            k = id(fn)
            if k not in self._flow:
                self._flow[k] = _flow.analyse(fn)
            return self._flow[k]
        return _flow.analyse(fn, events)

    # -- call graph ---------------------------------------------------------

    @property
    def wiring(self):
        if self._wiring is None:
            from .resolve import TypeWiring
            self._wiring = TypeWiring(self.idx)
        return self._wiring

    @property
    def cg(self):
        if self._cg is None:
            from .resolve import CallGraph
            self._cg = CallGraph(self.idx, self.wiring, self.cf)
        return self._cg

    @property
    def cg_precise(self):
        """Call graph of resolved edges only (no by-name fallback)."""
        if getattr(self, '_cgp', None) is None:
            from .resolve import CallGraph
            self._cgp = CallGraph(self.idx, self.wiring, self.cf, fallback=False)
        return self._cgp

    # -- small shared helpers ----------------------------------------------

    @staticmethod
    def basic_error_code(node):
        """
        'ILLEGAL_FUNCTION_CALL' for `raise error.BASICError(error.IFC)` (Raise or Call node),
        None if not a BASICError raise.
        """
        if isinstance(node, ast.Raise):
            node = node.exc
        if not isinstance(node, ast.Call):
            return None
        f = norm(node.func)
        if not f.endswith('BASICError') or not node.args:
            return None
        code = norm(node.args[0]).split('.')[-1]
        return ERR_ALIASES.get(code, code)

    @staticmethod
    def err_name(node):
        code = norm(node).split('.')[-1]
        return ERR_ALIASES.get(code, code)

    def raises_in(self, fn):
        """[(Raise node, code or None)] for all raise statements of fn (own body)."""
        out = []
        for n in _flow.own_nodes(fn):
            if isinstance(n, ast.Raise):
                out.append((n, self.basic_error_code(n)))
        return out

    def throwers(self, fn):
        """
        All explicit BASIC-error sites in a function: raise BASICError(X),
        throw_if(c, X), range_check(...) [IFC], range_check_err(..., X).
        Returns list of (node, code, condition-text or None).
        """
        out = []
        for n in _flow.own_nodes(fn):
            if isinstance(n, ast.Raise):
                c = self.basic_error_code(n)
                if c:
                    out.append((n, c, None))
            elif isinstance(n, ast.Call):
                f = norm(n.func)
                if f.endswith('throw_if') and n.args:
                    code = 'ILLEGAL_FUNCTION_CALL'
                    if len(n.args) > 1:
                        code = self.err_name(n.args[1])
                    for k in n.keywords:
                        if k.arg == 'err':
                            code = self.err_name(k.value)
                    out.append((n, code, norm(n.args[0])))
                elif f.endswith('range_check_err'):
                    code = 'ILLEGAL_FUNCTION_CALL'
                    if len(n.args) > 3:
                        code = self.err_name(n.args[3])
                    for k in n.keywords:
                        if k.arg == 'err':
                            code = self.err_name(k.value)
                    out.append((n, code, 'range %s..%s' % (norm(n.args[0]), norm(n.args[1]))))
                elif f.endswith('range_check'):
                    out.append((n, 'ILLEGAL_FUNCTION_CALL', 'range %s..%s' % (norm(n.args[0]), norm(n.args[1]))))
        return out

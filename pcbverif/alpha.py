"""
Alpha-normalisation of local variable names against a reference snapshot.

Many rule instances name the locals of the function they are anchored in
(`counter_view`, `varname2`, ...).  Renaming a local is the most common
behaviour-preserving edit, and a rule must not fire on it.  Instead of
writing every rule modulo renaming, the *program* is normalised before it is
analysed: for each function listed in `locals_ref.json` (the locals of every
function of the tree the rules were written against, in order of first
binding) the locals of the current function are aligned with the reference
list and renamed back, consistently, over the whole function body.

Soundness: the renaming is a bijection on the function's local names, its
targets are fresh in the function (no capture), parameters / globals /
attributes are never touched, so the analysed function is alpha-equivalent to
the one in the working tree; a behaviour change cannot be hidden by it.
Functions whose locals cannot be aligned unambiguously are left as they are.

The same is done for the orientation of simple comparisons: `b == a`, `b != a`,
`b > a`, `b >= a` ... are turned back into the orientation recorded in the
snapshot (`a == b`, `a < b`) when exactly the mirrored text is what the
snapshot has.  Mirroring a comparison preserves behaviour for the built-in
and value types compared in this code base (symmetric __eq__, reflected
ordering); it never changes which operands are compared.
"""
import ast
import json
import os

_REF = None


def reference():
    global _REF
    if _REF is None:
        p = os.path.join(os.path.dirname(os.path.abspath(__file__)), 'locals_ref.json')
        try:
            with open(p) as f:
                _REF = json.load(f)
        except (IOError, ValueError):
            _REF = {}
    return _REF


def _params(fn):
    a = fn.args
    out = set(x.arg for x in a.args + a.kwonlyargs + getattr(a, 'posonlyargs', []))
    if a.vararg:
        out.add(a.vararg.arg)
    if a.kwarg:
        out.add(a.kwarg.arg)
    return out


def local_order(fn):
    """Local names bound in fn (not parameters, not declared global/nonlocal), in source order of first binding."""
    params = _params(fn)
    declared = set()
    stores = []
    nested_params = set()
    for n in ast.walk(fn):
        if isinstance(n, (ast.Global, ast.Nonlocal)):
            declared |= set(n.names)
        elif isinstance(n, ast.Name) and isinstance(n.ctx, ast.Store):
            stores.append((n.lineno, n.col_offset, n.id))
        elif isinstance(n, ast.ExceptHandler) and n.name:
            stores.append((n.lineno, n.col_offset, n.name))
        elif n is not fn and isinstance(n, (ast.FunctionDef, ast.AsyncFunctionDef, ast.Lambda)):
            nested_params |= _params(n)
    out = []
    for _, _, name in sorted(stores):
        if name not in params and name not in declared and name not in out:
            out.append(name)
    return out, nested_params


def functions(tree):
    """Yield (dotted qualified name, FunctionDef) of functions and methods (one nesting level of classes, nested defs by dotted path)."""
    def walk(node, prefix):
        for st in getattr(node, 'body', []):
            if isinstance(st, (ast.FunctionDef, ast.AsyncFunctionDef)):
                yield prefix + st.name, st
                for x in walk(st, prefix + st.name + '.'):
                    yield x
            elif isinstance(st, ast.ClassDef):
                for x in walk(st, prefix + st.name + '.'):
                    yield x
            elif isinstance(st, (ast.If, ast.Try, ast.With, ast.For, ast.While)):
                for x in walk(st, prefix):
                    yield x
    return walk(tree, '')


def _rename(fn, mapping):
    for n in ast.walk(fn):
        if isinstance(n, ast.Name) and n.id in mapping:
            n.id = mapping[n.id]
        elif isinstance(n, ast.ExceptHandler) and n.name in mapping:
            n.name = mapping[n.name]


_MIRROR = {ast.Eq: ast.Eq, ast.NotEq: ast.NotEq, ast.Lt: ast.Gt, ast.Gt: ast.Lt, ast.LtE: ast.GtE, ast.GtE: ast.LtE}


def simple_compares(fn):
    return [c for c in ast.walk(fn) if isinstance(c, ast.Compare) and len(c.ops) == 1 and type(c.ops[0]) in _MIRROR]


def _mirror(c):
    c.left, c.comparators[0] = c.comparators[0], c.left
    c.ops[0] = _MIRROR[type(c.ops[0])]()


def _orient(fn, want_texts):
    n = 0
    for c in simple_compares(fn):
        t = ast.unparse(c)
        if t in want_texts:
            continue
        _mirror(c)
        if ast.unparse(c) in want_texts:
            n += 1
        else:
            _mirror(c)
    return n


# ---- statement-shape normalisation ---------------------------------------------------------------------------
#
# Three more behaviour-preserving rewrites are undone against the snapshot, so that rules which read the shape of a
# statement are not disturbed by them:
#   * a result variable introduced or removed:  `v = e; return v`  <->  `return e`
#   * the branches of an if/else exchanged under a negated test:  `if not c: B else: A`  <->  `if c: A else: B`
#   * an augmented assignment to a plain name written out:  `x = x + e`  <->  `x += e`
# Each rewrite is applied only when the snapshot has exactly the other form at that place (same function, same text),
# and each is an equivalence on the statement level (the introduced / removed local is not used anywhere else).

def _blocks(fn):
    for n in ast.walk(fn):
        for fld in ('body', 'orelse', 'finalbody'):
            b = getattr(n, fld, None)
            if isinstance(b, list) and b and isinstance(b[0], ast.stmt):
                yield b


def _plain_else(node):
    return isinstance(node, ast.If) and node.orelse and not (len(node.orelse) == 1 and isinstance(node.orelse[0], ast.If))


def _is_elif_arm(fn, node):
    for x in ast.walk(fn):
        if isinstance(x, ast.If) and x.orelse == [node]:
            return True
    return False


def _result_pairs(fn):
    """[(block, index, name)] of `name = e` directly followed by `return name`, where name is used in such pairs only."""
    out = []
    uses = {}
    for x in ast.walk(fn):
        if isinstance(x, ast.Name):
            uses[x.id] = uses.get(x.id, 0) + 1
    pairs = {}
    for b in _blocks(fn):
        for i in range(len(b) - 1):
            a, r = b[i], b[i + 1]
            if isinstance(a, ast.Assign) and len(a.targets) == 1 and isinstance(a.targets[0], ast.Name) and isinstance(r, ast.Return) \
                    and isinstance(r.value, ast.Name) and r.value.id == a.targets[0].id \
                    and not any(isinstance(x, ast.Name) and x.id == r.value.id for x in ast.walk(a.value)):
                out.append((b, i, r.value.id))
                pairs[r.value.id] = pairs.get(r.value.id, 0) + 1
    return [(b, i, name) for b, i, name in out if uses.get(name) == 2 * pairs[name]]


def _aug_text(a):
    """`x = x OP e` as the text of `x OP= e`, or None."""
    if isinstance(a, ast.Assign) and len(a.targets) == 1 and isinstance(a.targets[0], ast.Name) and isinstance(a.value, ast.BinOp) \
            and isinstance(a.value.left, ast.Name) and a.value.left.id == a.targets[0].id:
        return ast.unparse(ast.AugAssign(target=ast.Name(id=a.targets[0].id, ctx=ast.Store()), op=a.value.op, value=a.value.right))
    return None


def _expanded_text(a):
    if isinstance(a, ast.AugAssign) and isinstance(a.target, ast.Name):
        return ast.unparse(ast.Assign(targets=[ast.Name(id=a.target.id, ctx=ast.Store())],
                                      value=ast.BinOp(left=ast.Name(id=a.target.id, ctx=ast.Load()), op=a.op, right=a.value), lineno=0))
    return None


def shape_of(fn):
    """What the snapshot records about the statement shapes of one function."""
    out = {}
    res = [[name, ast.unparse(b[i].value)] for b, i, name in _result_pairs(fn)]
    if res:
        out['results'] = res
    rets = sorted(set(ast.unparse(r.value) for r in ast.walk(fn) if isinstance(r, ast.Return) and r.value is not None and not isinstance(r.value, (ast.Name, ast.Constant))))
    if rets:
        out['returns'] = rets
    tests = sorted(set(ast.unparse(x.test) for x in ast.walk(fn) if _plain_else(x)))
    if tests:
        out['iftests'] = tests
    aug = sorted(set(ast.unparse(a) for a in ast.walk(fn) if isinstance(a, ast.AugAssign) and isinstance(a.target, ast.Name)))
    if aug:
        out['aug'] = aug
    exp = sorted(set(ast.unparse(a) for a in ast.walk(fn) if _aug_text(a) is not None))
    if exp:
        out['expanded'] = exp
    return out


def _inline_new_results(fn, ref_locals, ref_shape):
    """`v = e; return v` with v a local the snapshot does not have, where the snapshot returns e directly."""
    n = 0
    want = set(ref_shape.get('returns', []))
    for b, i, name in sorted(_result_pairs(fn), key=lambda t: -t[1]):
        if name in ref_locals:
            continue
        if ast.unparse(b[i].value) in want or not want:
            b[i:i + 2] = [ast.copy_location(ast.Return(value=b[i].value), b[i])]
            n += 1
    return n


def _outline_results(fn, ref_shape):
    """`return e` where the snapshot has `R = e; return R` and R is free in the function."""
    n = 0
    have = set(x.id for x in ast.walk(fn) if isinstance(x, ast.Name)) | _params(fn)
    for name, text in ref_shape.get('results', []):
        if name in have:
            continue
        hits = [(b, i) for b in _blocks(fn) for i, r in enumerate(b) if isinstance(r, ast.Return) and r.value is not None and ast.unparse(r.value) == text]
        if len(hits) != 1:
            continue
        b, i = hits[0]
        r = b[i]
        a = ast.copy_location(ast.Assign(targets=[ast.copy_location(ast.Name(id=name, ctx=ast.Store()), r)], value=r.value, lineno=r.lineno), r)
        r2 = ast.copy_location(ast.Return(value=ast.copy_location(ast.Name(id=name, ctx=ast.Load()), r)), r)
        b[i:i + 1] = [a, r2]
        have.add(name)
        n += 1
    return n


def _restore_branch_order(fn, ref_shape):
    n = 0
    want = set(ref_shape.get('iftests', []))
    for x in ast.walk(fn):
        if not _plain_else(x):
            continue
        t = ast.unparse(x.test)
        if t in want:
            continue
        if isinstance(x.test, ast.UnaryOp) and isinstance(x.test.op, ast.Not) and ast.unparse(x.test.operand) in want:
            x.test = x.test.operand
        elif ast.unparse(ast.UnaryOp(op=ast.Not(), operand=x.test)) in want:
            x.test = ast.copy_location(ast.UnaryOp(op=ast.Not(), operand=x.test), x.test)
        else:
            continue
        x.body, x.orelse = x.orelse, x.body
        n += 1
    return n


def _restore_augmented(fn, ref_shape):
    n = 0
    aug = set(ref_shape.get('aug', []))
    exp = set(ref_shape.get('expanded', []))
    for b in _blocks(fn):
        for i, a in enumerate(b):
            t = _aug_text(a)
            if t is not None and t in aug and ast.unparse(a) not in exp:
                b[i] = ast.copy_location(ast.AugAssign(target=ast.copy_location(ast.Name(id=a.targets[0].id, ctx=ast.Store()), a), op=a.value.op, value=a.value.right), a)
                n += 1
                continue
            e = _expanded_text(a)
            if e is not None and e in exp and ast.unparse(a) not in aug:
                b[i] = ast.copy_location(ast.Assign(targets=[ast.copy_location(ast.Name(id=a.target.id, ctx=ast.Store()), a)],
                                                    value=ast.copy_location(ast.BinOp(left=ast.copy_location(ast.Name(id=a.target.id, ctx=ast.Load()), a), op=a.op, right=a.value), a),
                                                    lineno=a.lineno), a)
                n += 1
    return n


def normalise(tree, path, ref=None):
    """Rename locals of the functions in `tree` back to their reference names and restore the reference
    orientation of mirrored comparisons. Returns the number of functions changed."""
    ref = reference() if ref is None else ref
    table = ref.get(path)
    ctable = ref.get('#compare', {}).get(path, {})
    if not table and not ctable and not ref.get('#shape', {}).get(path):
        return 0
    table = table or {}
    stable = ref.get('#shape', {}).get(path, {})
    changed = 0
    for dotted, fn in functions(tree):
        shp = stable.get(dotted)
        if shp is not None or dotted in table:
            # a result variable the snapshot does not know goes first: it would otherwise defeat the alignment of locals
            changed += _inline_new_results(fn, set(table.get(dotted, [])), shp or {})
        changed += _normalise_locals(dotted, fn, table)
        want_c = ctable.get(dotted)
        if want_c:
            changed += 1 if _orient(fn, set(want_c)) else 0
        if shp:
            changed += _restore_branch_order(fn, shp)
            changed += _restore_augmented(fn, shp)
            changed += _outline_results(fn, shp)
    if changed:
        ast.fix_missing_locations(tree)
    return changed


def _normalise_locals(dotted, fn, table):
    changed = 0
    for _ in (0,):
        want = table.get(dotted)
        if want is None:
            continue
        cur, nested_params = local_order(fn)
        if cur == want or set(cur) == set(want):
            continue
        cur_only = [x for x in cur if x not in want]
        ref_only = [x for x in want if x not in cur]
        if not cur_only or len(cur_only) != len(ref_only):
            continue
        # positions must agree as well: the k-th unmatched local stands where the k-th missing reference name stood
        if [cur.index(x) for x in cur_only] != [want.index(x) for x in ref_only] and len(cur) == len(want):
            continue
        used = set(n.id for n in ast.walk(fn) if isinstance(n, ast.Name)) | _params(fn)
        if any(t in used for t in ref_only) or any(s in nested_params for s in cur_only) or any(t in nested_params for t in ref_only):
            continue
        _rename(fn, dict(zip(cur_only, ref_only)))
        changed += 1
    return changed

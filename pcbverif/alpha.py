"""
Alpha-normalisation of local variable names against a reference snapshot.

Many rule instances name the locals of the function they are anchored in
(`counter_view`, `varname2`, ...).  Renaming a local is the most common
behaviour-preserving edit, and a rule must not fire on it.  Instead of
writing every rule modulo renaming, the *program* is normalised before it is
analysed: for each function listed in `locals_ref.json` (the locals of every
function of the tree the rules were written against, in order of first
binding) the locals of the current function are aligned with the reference
list and renamed back, consistently, over the whole function body.

Soundness: the renaming is a bijection on the function's local names, its
targets are fresh in the function (no capture), parameters / globals /
attributes are never touched, so the analysed function is alpha-equivalent to
the one in the working tree; a behaviour change cannot be hidden by it.
Functions whose locals cannot be aligned unambiguously are left as they are.

The same is done for the orientation of simple comparisons: `b == a`, `b != a`,
`b > a`, `b >= a` ... are turned back into the orientation recorded in the
snapshot (`a == b`, `a < b`) when exactly the mirrored text is what the
snapshot has.  Mirroring a comparison preserves behaviour for the built-in
and value types compared in this code base (symmetric __eq__, reflected
ordering); it never changes which operands are compared.
"""
import ast
import json
import os

_REF = None


def reference():
    global _REF
    if _REF is None:
        p = os.path.join(os.path.dirname(os.path.abspath(__file__)), 'locals_ref.json')
        try:
            with open(p) as f:
                _REF = json.load(f)
        except (IOError, ValueError):
            _REF = {}
    return _REF


def _params(fn):
    a = fn.args
    out = set(x.arg for x in a.args + a.kwonlyargs + getattr(a, 'posonlyargs', []))
    if a.vararg:
        out.add(a.vararg.arg)
    if a.kwarg:
        out.add(a.kwarg.arg)
    return out


def local_order(fn):
    """Local names bound in fn (not parameters, not declared global/nonlocal), in source order of first binding."""
    params = _params(fn)
    declared = set()
    stores = []
    nested_params = set()
    for n in ast.walk(fn):
        if isinstance(n, (ast.Global, ast.Nonlocal)):
            declared |= set(n.names)
        elif isinstance(n, ast.Name) and isinstance(n.ctx, ast.Store):
            stores.append((n.lineno, n.col_offset, n.id))
        elif isinstance(n, ast.ExceptHandler) and n.name:
            stores.append((n.lineno, n.col_offset, n.name))
        elif n is not fn and isinstance(n, (ast.FunctionDef, ast.AsyncFunctionDef, ast.Lambda)):
            nested_params |= _params(n)
    out = []
    for _, _, name in sorted(stores):
        if name not in params and name not in declared and name not in out:
            out.append(name)
    return out, nested_params


def functions(tree):
    """Yield (dotted qualified name, FunctionDef) of functions and methods (one nesting level of classes, nested defs by dotted path)."""
    def walk(node, prefix):
        for st in getattr(node, 'body', []):
            if isinstance(st, (ast.FunctionDef, ast.AsyncFunctionDef)):
                yield prefix + st.name, st
                for x in walk(st, prefix + st.name + '.'):
                    yield x
            elif isinstance(st, ast.ClassDef):
                for x in walk(st, prefix + st.name + '.'):
                    yield x
            elif isinstance(st, (ast.If, ast.Try, ast.With, ast.For, ast.While)):
                for x in walk(st, prefix):
                    yield x
    return walk(tree, '')


def _rename(fn, mapping):
    for n in ast.walk(fn):
        if isinstance(n, ast.Name) and n.id in mapping:
            n.id = mapping[n.id]
        elif isinstance(n, ast.ExceptHandler) and n.name in mapping:
            n.name = mapping[n.name]


_MIRROR = {ast.Eq: ast.Eq, ast.NotEq: ast.NotEq, ast.Lt: ast.Gt, ast.Gt: ast.Lt, ast.LtE: ast.GtE, ast.GtE: ast.LtE}


def simple_compares(fn):
    return [c for c in ast.walk(fn) if isinstance(c, ast.Compare) and len(c.ops) == 1 and type(c.ops[0]) in _MIRROR]


def _mirror(c):
    c.left, c.comparators[0] = c.comparators[0], c.left
    c.ops[0] = _MIRROR[type(c.ops[0])]()


def _orient(fn, want_texts):
    n = 0
    for c in simple_compares(fn):
        t = ast.unparse(c)
        if t in want_texts:
            continue
        _mirror(c)
        if ast.unparse(c) in want_texts:
            n += 1
        else:
            _mirror(c)
    return n


def normalise(tree, path, ref=None):
    """Rename locals of the functions in `tree` back to their reference names and restore the reference
    orientation of mirrored comparisons. Returns the number of functions changed."""
    ref = reference() if ref is None else ref
    table = ref.get(path)
    ctable = ref.get('#compare', {}).get(path, {})
    if not table and not ctable:
        return 0
    table = table or {}
    changed = 0
    for dotted, fn in functions(tree):
        changed += _normalise_locals(dotted, fn, table)
        want_c = ctable.get(dotted)
        if want_c:
            changed += 1 if _orient(fn, set(want_c)) else 0
    return changed


def _normalise_locals(dotted, fn, table):
    changed = 0
    for _ in (0,):
        want = table.get(dotted)
        if want is None:
            continue
        cur, nested_params = local_order(fn)
        if cur == want or set(cur) == set(want):
            continue
        cur_only = [x for x in cur if x not in want]
        ref_only = [x for x in want if x not in cur]
        if not cur_only or len(cur_only) != len(ref_only):
            continue
        # positions must agree as well: the k-th unmatched local stands where the k-th missing reference name stood
        if [cur.index(x) for x in cur_only] != [want.index(x) for x in ref_only] and len(cur) == len(want):
            continue
        used = set(n.id for n in ast.walk(fn) if isinstance(n, ast.Name)) | _params(fn)
        if any(t in used for t in ref_only) or any(s in nested_params for s in cur_only) or any(t in nested_params for t in ref_only):
            continue
        _rename(fn, dict(zip(cur_only, ref_only)))
        changed += 1
    return changed

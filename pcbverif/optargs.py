"""
Optional numeric arguments: a statement callback gets None for an argument that was left out and converts a
given one with values.to_int.  Once converted, 0 is a legal value, so "was it given?" must be asked with
`is None`; a truthiness test (`if not x`, `x or default`) on the converted local treats an explicit 0 as omitted.
A truthiness test that comes before the conversion is a test on the Value object (or None) and is fine.
"""
import ast

from .source import norm, qualname
from .flow import own_nodes


def int_truthiness_tests(ctx, path_prefixes):
    """-> (functions with int-converted locals, [(fn, local, test node)])"""
    n_fn = 0
    out = []
    for fn in ctx.idx.functions(''):
        if not qualname(fn).startswith(tuple(path_prefixes)):
            continue
        conv = {}
        for a in own_nodes(fn):
            if isinstance(a, ast.Assign) and isinstance(a.targets[0], ast.Name) and isinstance(a.value, ast.Call) \
                    and norm(a.value.func).split('.')[-1] == 'to_int':
                conv.setdefault(a.targets[0].id, []).append(a.lineno)
        if not conv:
            continue
        n_fn += 1
        for c in own_nodes(fn):
            tests = []
            if isinstance(c, (ast.If, ast.While, ast.IfExp)):
                tests.append(c.test)
            if isinstance(c, ast.BoolOp):
                tests.extend(c.values)
            for t in tests:
                inner = t.operand if isinstance(t, ast.UnaryOp) and isinstance(t.op, ast.Not) else t
                if isinstance(inner, ast.Name) and inner.id in conv and min(conv[inner.id]) < inner.lineno:
                    out.append((fn, inner.id, c))
    return n_fn, out


def check(ctx, rep, files, floor, exempt=None, rule='arguments.zero-is-not-omitted'):
    """Emit one obligation per truthiness test on an int-converted local in `files`; `exempt` maps
    (function, local) -> reason for deliberate boolean use of a converted number."""
    from .source import short
    exempt = exempt or {}
    n_fn, hits = int_truthiness_tests(ctx, files)
    for fn, local, test in hits:
        who = qualname(fn).split(':')[1]
        reason = exempt.get((who, local))
        rep.ob(rule, '%s: `%s` tested by truthiness after conversion to int' % (who, local), reason is not None,
               reason or 'an argument given as 0 is treated as left out (%s); ask `is None`' % short(test, 60), ctx.where(test))
    rep.floor(rule, n_fn, floor, 'callbacks with int-converted arguments')
    return n_fn

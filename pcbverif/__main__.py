"""
CLI: python -m pcbverif <ID> [--tier quick|thorough] [--replay path]

Exit 0: all obligations held (or only listed known findings failed)
Exit 1: VIOLATION property=<id> replay=<path>
Exit 2: ANALYSIS-ERROR (anchor vanished, floor not reached, internal error)
"""
import sys
import os
import json
import argparse
import importlib
import traceback
import time

from .source import SourceIndex, AnalysisError
from .context import Ctx
from .report import Report
from . import selftest as st


def run_rules(prop, tier, idx=None, write=True, quiet=False):
    mod = importlib.import_module('pcbverif.rules.%s' % prop.lower())
    rep = Report(prop, tier, getattr(mod, 'LEVEL', 'other'))
    rep.explanation = ' '.join(getattr(mod, 'EXPLANATION', '').split())
    for a in getattr(mod, 'ASSUMPTIONS', []):
        rep.assume(a)
    try:
        ctx = Ctx(idx or SourceIndex(), tier)
        rep.note('modules_parsed', len(ctx.idx.modules))
        rep.note('source_digest', ctx.idx.digest.hexdigest()[:16])
        mod.check(ctx, rep)
    except AnalysisError as e:
        rep.error('%s: %s' % (type(e).__name__, e))
    except Exception as e:
        tb = traceback.format_exc().strip().splitlines()
        rep.error('internal %s: %s @ %s' % (type(e).__name__, e, ' | '.join(t.strip() for t in tb[-4:-1])))
    return mod, rep


def main(argv=None):
    ap = argparse.ArgumentParser(prog='check')
    ap.add_argument('prop')
    ap.add_argument('--tier', default=os.environ.get('VERIF_TIER') or 'quick', choices=['quick', 'thorough'])
    ap.add_argument('--replay', default=None)
    ap.add_argument('--selftest-only', action='store_true')
    ap.add_argument('--list-variants', action='store_true')
    ap.add_argument('--variant', default=None, help='run rules on one named self-test variant and print findings')
    args = ap.parse_args(argv)
    prop = args.prop.upper()
    try:
        if args.variant or args.list_variants:
            return st.debug_variant(prop, args.variant)
        mod, rep = run_rules(prop, args.tier)
        selftest = None
        if args.tier == 'thorough' and not rep.errors:
            selftest = st.run(prop, mod, rep)
            if selftest['failed']:
                for f in selftest['failed']:
                    rep.error('self-test: ' + f)
            # false-alarm stress: every local of every anchored function renamed, comparisons mirrored, no-ops inserted
            stress = st.stress(prop, mod, rep)
            selftest['neutral_stress'] = dict(anchored_functions=stress['anchored_functions'], variants=stress['variants'], alarms=stress['alarms'][:10])
            for a in stress['alarms'][:10]:
                rep.error('neutral stress: behaviour-preserving variant raised an alarm: ' + a)
        if args.replay:
            try:
                want = json.load(open(args.replay))
                hit = [f for f in rep.findings if f.rule == want.get('rule') and f.construct == want.get('construct')]
                print('replay: finding %s' % ('REPRODUCED' if hit else 'not reproduced on current tree'))
            except Exception as e:
                print('replay: cannot read %s: %s' % (args.replay, e))
        return rep.finish(selftest=selftest)
    except Exception as e:  # never let a traceback masquerade as a violation
        print('ANALYSIS-ERROR property=%s internal %s: %s' % (prop, type(e).__name__, e))
        traceback.print_exc()
        return 2


if __name__ == '__main__':
    sys.exit(main())

"""
TypeWiring + CallGraph + FieldEffects.

TypeWiring: attribute types from `self.a = Cls(...)`, `self.a = param`,
`self.a = self.b.c`; constructor-parameter types propagated from call sites
(`machine.Memory(..., self.files, ...)` => Memory.__init__'s `files` : Files).

CallGraph: callee resolution for self.m(), self.a.m(), self.a.b.m(), mod.f(),
Cls.m(self, ..), name(); local variables bound to typed expressions are
followed (flow-insensitively).  Calls that cannot be resolved fall back to all
methods of that name (over-approximation; counted) unless the name is a
builtin/container/stream method in STOP.

FieldEffects: per function the attributes of typed receivers written,
deleted or mutated in place, and transitively over the call graph.
"""
import ast

from .source import (
    norm, class_methods, enclosing_class, enclosing_function, qualname, AnalysisError,
)
from .flow import own_nodes

STOP = {
    # container / builtin / stream method names never resolved by name fallback
    'append', 'extend', 'pop', 'popleft', 'appendleft', 'get', 'items', 'keys', 'values', 'update', 'clear', 'copy',
    'add', 'remove', 'discard', 'index', 'count', 'sort', 'reverse', 'insert', 'join', 'split', 'strip', 'lstrip',
    'rstrip', 'upper', 'lower', 'encode', 'decode', 'format', 'replace', 'startswith', 'endswith', 'find', 'rfind',
    'ljust', 'rjust', 'tobytes', 'setdefault', 'put', 'get_nowait', 'task_done', 'qsize', 'empty', 'partition',
    'rpartition', 'splitlines', 'isdigit', 'isalpha', 'zfill', 'center', 'translate', 'to_bytes', 'from_bytes',
    'read', 'write', 'seek', 'tell', 'close', 'flush', 'truncate', 'readline', 'getvalue', 'fileno', 'isatty',
    'debug', 'info', 'warning', 'error', 'critical', 'exception', 'send', 'throw', 'next', 'group', 'match', 'search',
    'sub', 'pack', 'unpack', 'pack_into', 'unpack_from', 'hexlify', 'unhexlify', 'start', 'run', 'is_alive', 'sleep',
    'time', 'now', 'today', 'total_seconds', 'strftime', 'replace', 'lock', 'acquire', 'release', 'wait', 'set',
    'title', 'capitalize', 'swapcase', 'bit_length', 'hex', 'union', 'intersection', 'difference', 'issubset',
    '__init__', 'rotate', 'most_common', 'setter', 'getter',
}
MUTATING_CALLS = {'append', 'extend', 'pop', 'popleft', 'appendleft', 'update', 'clear', 'add', 'remove', 'discard',
                  'insert', 'sort', 'reverse', 'setdefault', 'rotate'}


class TypeWiring(object):

    def __init__(self, idx):
        self.idx = idx
        self.attr = {}     # (id(cls), attr) -> set of ClassDef
        self.param = {}    # (id(func), param) -> set of ClassDef
        self.cls_of = {}   # id(cls) -> cls
        self._nodes = {}   # id(fn) -> pre-extracted node lists
        self._build()

    def fn_nodes(self, fn):
        """(name-assigns, withs, self-attr stores, calls) of a function, extracted once."""
        r = self._nodes.get(id(fn))
        if r is None:
            assigns, withs, stores, calls = [], [], [], []
            for n in own_nodes(fn):
                if isinstance(n, ast.Assign):
                    if len(n.targets) == 1 and isinstance(n.targets[0], ast.Name):
                        assigns.append(n)
                    for t in n.targets:
                        if isinstance(t, ast.Attribute) and isinstance(t.value, ast.Name) and t.value.id == 'self':
                            stores.append((t.attr, n))
                elif isinstance(n, (ast.With, ast.AsyncWith)):
                    withs.append(n)
                elif isinstance(n, ast.Call):
                    calls.append(n)
            r = (assigns, withs, stores, calls)
            self._nodes[id(fn)] = r
        return r

    def classes(self):
        return list(self.idx.class_table().values())

    def _add(self, table, key, types):
        if not types:
            return False
        s = table.setdefault(key, set())
        n = len(s)
        for t in types:
            s.add(t)
        return len(s) != n

    def attr_types(self, cls, name):
        out = set()
        for c in self.idx.mro(cls):
            out |= set(self.attr.get((id(c), name), ()))
        # attributes set by subclasses are visible through a base-typed receiver
        if not out:
            for c in self.idx.subclasses(cls):
                out |= set(self.attr.get((id(c), name), ()))
        return out

    def expr_types(self, node, fn, cls, local=None):
        """Set of ClassDef an expression may evaluate to (empty = unknown)."""
        local = local or {}
        if isinstance(node, ast.Name):
            if node.id == 'self' and cls is not None:
                return {cls}
            if node.id in local:
                return set(local[node.id])
            if fn is not None and (id(fn), node.id) in self.param:
                return set(self.param[(id(fn), node.id)])
            return set()
        if isinstance(node, ast.Attribute):
            out = set()
            for t in self.expr_types(node.value, fn, cls, local):
                out |= self.attr_types(t, node.attr)
            return out
        if isinstance(node, ast.Call):
            r = self._resolve_static(node.func, node)
            if r is not None and r[0] == 'class':
                return {r[1]}
            # factory methods returning self / typed attributes are not modelled
            return set()
        if isinstance(node, ast.IfExp):
            return self.expr_types(node.body, fn, cls, local) | self.expr_types(node.orelse, fn, cls, local)
        if isinstance(node, ast.BoolOp):
            out = set()
            for v in node.values:
                out |= self.expr_types(v, fn, cls, local)
            return out
        return set()

    def _resolve_static(self, func_node, at):
        mod = at._module
        try:
            return self.idx.resolve_name(mod, norm(func_node))
        except Exception:
            return None

    def _build(self):
        idx = self.idx
        funcs = list(idx.functions('pcbasic/'))
        for _round in range(6):
            changed = False
            for fn in funcs:
                cls = enclosing_class(fn)
                if cls is not None and enclosing_function(fn) is not None:
                    pass
                local = self.local_types(fn, cls)
                assigns, withs, stores, calls = self.fn_nodes(fn)
                if cls is not None:
                    for attr, n in stores:
                        types = self.expr_types(n.value, fn, cls, local)
                        changed |= self._add(self.attr, (id(cls), attr), types)
                for n in calls:
                    if True:
                        targets = self.call_targets(n, fn, cls, local, fallback=False)
                        for callee in targets:
                            params = [a.arg for a in callee.args.args]
                            if params and params[0] in ('self', 'cls'):
                                params = params[1:]
                            for p, a in zip(params, n.args):
                                if isinstance(a, ast.Starred):
                                    break
                                changed |= self._add(self.param, (id(callee), p), self.expr_types(a, fn, cls, local))
                            for kw in n.keywords:
                                if kw.arg in params:
                                    changed |= self._add(self.param, (id(callee), kw.arg), self.expr_types(kw.value, fn, cls, local))
            if not changed:
                break

    def local_types(self, fn, cls):
        local = {}
        assigns, withs, stores, calls = self.fn_nodes(fn)
        if not assigns and not withs:
            return local
        for _ in range(2):
            for n in assigns:
                t = self.expr_types(n.value, fn, cls, local)
                if t:
                    local.setdefault(n.targets[0].id, set()).update(t)
            for n in withs:
                for it in n.items:
                    if isinstance(it.optional_vars, ast.Name):
                        t = self.expr_types(it.context_expr, fn, cls, local)
                        if t:
                            local.setdefault(it.optional_vars.id, set()).update(t)
        return local

    def call_targets(self, call, fn, cls, local=None, fallback=True, stats=None):
        """FunctionDefs a call may invoke."""
        idx = self.idx
        f = call.func
        out = []
        if isinstance(f, ast.Name):
            r = self._resolve_static(f, call)
            if r is not None:
                if r[0] == 'func':
                    out.append(r[1])
                elif r[0] == 'class':
                    init = idx.find_method(r[1], '__init__')
                    if init is not None:
                        out.append(init)
            if stats is not None:
                stats['resolved' if out else 'external'] += 1
            return out
        if isinstance(f, ast.Attribute):
            # Cls.m(self, ...) / mod.f() / mod.Cls()
            r = self._resolve_static(f, call)
            if r is not None and r[0] == 'func':
                if stats is not None:
                    stats['resolved'] += 1
                return [r[1]]
            if r is not None and r[0] == 'class':
                init = idx.find_method(r[1], '__init__')
                if stats is not None:
                    stats['resolved'] += 1
                return [init] if init is not None else []
            recv_types = self.expr_types(f.value, fn, cls, local)
            if recv_types:
                for t in recv_types:
                    m = idx.find_method(t, f.attr)
                    if m is not None:
                        out.append(m)
                    # overrides in subclasses (dynamic dispatch)
                    for sub in idx.subclasses(t):
                        sm = class_methods(sub).get(f.attr)
                        if sm is not None and sm not in out:
                            out.append(sm)
                if out:
                    if stats is not None:
                        stats['resolved'] += 1
                    return out
                # typed receiver without such a method: attribute holding a callable, or external base
            if fallback and f.attr not in STOP:
                out = list(idx.methods_named(f.attr))
                if stats is not None:
                    stats['by-name' if out else 'external'] += 1
                return out
            if stats is not None:
                stats['external'] += 1
        return out


class CallGraph(object):

    def __init__(self, idx, wiring, cf=None, fallback=True):
        self.idx = idx
        self.w = wiring
        self.fallback = fallback
        self.stats = {'resolved': 0, 'by-name': 0, 'external': 0}
        self.edges = {}      # id(fn) -> list of (call node, callee fn)
        self.fn_of = {}
        self.callers = {}    # id(callee) -> list of (caller fn, call node)
        self._build()

    def _build(self):
        for fn in self.idx.functions('pcbasic/'):
            self.fn_of[id(fn)] = fn
            cls = enclosing_class(fn)
            local = self.w.local_types(fn, cls)
            lst = []
            for n in self.w.fn_nodes(fn)[3]:
                if True:
                    for callee in self.w.call_targets(n, fn, cls, local, self.fallback, self.stats):
                        lst.append((n, callee))
                        self.callers.setdefault(id(callee), []).append((fn, n))
            # nested functions/lambdas defined inside are treated as called
            for n in ast.walk(fn):
                if n is not fn and isinstance(n, (ast.FunctionDef, ast.AsyncFunctionDef)) and enclosing_function(n) is fn:
                    lst.append((n, n))
            self.edges[id(fn)] = lst

    def callees(self, fn):
        return self.edges.get(id(fn), [])

    def reachable(self, roots, stop=None):
        """Set of id(fn) reachable from roots; `stop(fn)` prunes."""
        seen = {}
        work = list(roots)
        for r in roots:
            seen[id(r)] = None
        while work:
            fn = work.pop()
            if stop is not None and stop(fn):
                continue
            for call, callee in self.callees(fn):
                if id(callee) not in seen:
                    seen[id(callee)] = (fn, call)
                    work.append(callee)
        return seen

    def path(self, seen, fn):
        """Reconstruct one call path root -> fn from a reachable() map."""
        out = [qualname(fn)]
        cur = seen.get(id(fn))
        n = 0
        while cur is not None and n < 50:
            caller, call = cur
            out.append(qualname(caller))
            cur = seen.get(id(caller))
            n += 1
        return list(reversed(out))


def dispatch_roots(ctx):
    """
    Statement and function callbacks named in the dispatch dict literals,
    resolved through Implementation's attribute types.
    Returns list of (token-text, kind, value-node, [FunctionDef]).
    """
    w = ctx.wiring
    impl = ctx.cls('pcbasic/basic/implementation.py:Implementation')
    out = []
    for spec, kind in (('pcbasic/basic/parser/statements.py:Parser.init_statements', 'statement'),
                       ('pcbasic/basic/parser/expressions.py:ExpressionParser.init_functions', 'function')):
        fn = ctx.fn(spec)
        cls = enclosing_class(fn)
        dicts = [n.value for n in own_nodes(fn) if isinstance(n, ast.Assign) and norm(n.targets[0]) == 'self._callbacks'
                 and isinstance(n.value, ast.Dict)]
        if len(dicts) != 1:
            raise AnalysisError('%s: expected one _callbacks dict literal' % spec)
        for k, v in zip(dicts[0].keys, dicts[0].values):
            targets = []
            if isinstance(v, ast.Attribute):
                # session.a.b.m_  /  self.string_functions.m_ / values.m_
                base = v.value
                root = base
                while isinstance(root, ast.Attribute):
                    root = root.value
                if isinstance(root, ast.Name) and root.id == 'session':
                    types = _chain_types(w, base, {'session': {impl}}, fn, cls)
                    for t in types:
                        m = ctx.idx.find_method(t, v.attr)
                        if m is not None:
                            targets.append(m)
                elif isinstance(root, ast.Name) and root.id == 'self':
                    for t in w.expr_types(base, fn, cls):
                        m = ctx.idx.find_method(t, v.attr)
                        if m is not None:
                            targets.append(m)
                else:
                    r = ctx.idx.resolve_name(v._module, norm(v))
                    if r and r[0] == 'func':
                        targets.append(r[1])
            out.append((norm(k), kind, v, targets))
    return out


def _chain_types(w, node, env, fn, cls):
    if isinstance(node, ast.Name):
        return set(env.get(node.id, ()))
    if isinstance(node, ast.Attribute):
        out = set()
        for t in _chain_types(w, node.value, env, fn, cls):
            out |= w.attr_types(t, node.attr)
        return out
    return set()


class FieldEffects(object):
    """Per function: attributes of typed receivers written / deleted / mutated in place."""

    def __init__(self, ctx):
        self.ctx = ctx
        self.w = ctx.wiring
        self._cache = {}

    def direct(self, fn):
        """List of (kind, class-name-set, attr, node): kind in write|del|mutate."""
        if id(fn) in self._cache:
            return self._cache[id(fn)]
        cls = enclosing_class(fn)
        local = self.w.local_types(fn, cls)
        out = []

        def owner(recv):
            types = self.w.expr_types(recv, fn, cls, local)
            return frozenset(t.name for t in types) or frozenset(['?' + norm(recv)])

        def target(t, kind, node):
            if isinstance(t, ast.Attribute):
                out.append((kind, owner(t.value), t.attr, node))
            elif isinstance(t, ast.Subscript):
                base = t.value
                while isinstance(base, ast.Subscript):
                    base = base.value
                if isinstance(base, ast.Attribute):
                    out.append(('mutate', owner(base.value), base.attr, node))
            elif isinstance(t, (ast.Tuple, ast.List)):
                for e in t.elts:
                    target(e, kind, node)

        for n in own_nodes(fn):
            if isinstance(n, ast.Assign):
                for t in n.targets:
                    target(t, 'write', n)
            elif isinstance(n, ast.AugAssign):
                target(n.target, 'write', n)
            elif isinstance(n, ast.Delete):
                for t in n.targets:
                    target(t, 'del', n)
            elif isinstance(n, ast.Call) and isinstance(n.func, ast.Attribute) and n.func.attr in MUTATING_CALLS:
                recv = n.func.value
                if isinstance(recv, ast.Attribute):
                    out.append(('mutate', owner(recv.value), recv.attr, n))
        self._cache[id(fn)] = out
        return out

    def transitive(self, fn, cg, stop=None):
        """All direct effects of fn and its transitive callees."""
        seen = cg.reachable([fn], stop)
        out = []
        for fid in seen:
            f = cg.fn_of.get(fid)
            if f is not None:
                for e in self.direct(f):
                    out.append(e + (f,))
        return out

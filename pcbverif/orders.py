"""
OrderTypes: decide a predicate that is built only from comparisons of k
variables (and and/or/not) by enumerating all *weak orderings* of those
variables -- a finite, complete abstraction: the truth of such a predicate
depends only on the order type of its arguments.  (4 variables: 75 weak
orderings.)  The predicate AST is interpreted by this module over rank
assignments; no repository code is executed.
"""
import ast
import itertools

from .source import norm, AnalysisError


def weak_orderings(names):
    """All assignments of ranks to names that are distinct as order types."""
    names = list(names)
    seen = set()
    out = []
    k = len(names)
    for ranks in itertools.product(range(k), repeat=k):
        # canonical: ranks used must be 0..m-1 without gaps
        used = sorted(set(ranks))
        if used != list(range(len(used))):
            continue
        if ranks in seen:
            continue
        seen.add(ranks)
        out.append(dict(zip(names, ranks)))
    return out


def evaluate(node, env):
    """Truth value of a comparison-only predicate under a rank assignment."""
    if isinstance(node, ast.BoolOp):
        vals = [evaluate(v, env) for v in node.values]
        return all(vals) if isinstance(node.op, ast.And) else any(vals)
    if isinstance(node, ast.UnaryOp) and isinstance(node.op, ast.Not):
        return not evaluate(node.operand, env)
    if isinstance(node, ast.Compare):
        left = _val(node.left, env)
        for op, c in zip(node.ops, node.comparators):
            right = _val(c, env)
            ok = {
                ast.Lt: left < right, ast.LtE: left <= right, ast.Gt: left > right, ast.GtE: left >= right,
                ast.Eq: left == right, ast.NotEq: left != right,
            }.get(type(op))
            if ok is None:
                raise AnalysisError('OrderTypes: unsupported comparison %s' % type(op).__name__)
            if not ok:
                return False
            left = right
        return True
    if isinstance(node, ast.Constant) and isinstance(node.value, bool):
        return node.value
    raise AnalysisError('OrderTypes: not a comparison-only predicate: %s' % norm(node))


def _val(node, env):
    t = norm(node)
    if t in env:
        return env[t]
    raise AnalysisError('OrderTypes: free term %s' % t)


def compare(pred, reference, names, constraint=None):
    """
    Compare two predicates on all (admissible) order types.
    Returns (n_checked, [counterexample env]).
    """
    if isinstance(reference, str):
        reference = ast.parse(reference, mode='eval').body
    if isinstance(constraint, str):
        constraint = ast.parse(constraint, mode='eval').body
    bad = []
    n = 0
    for env in weak_orderings(names):
        if constraint is not None and not evaluate(constraint, env):
            continue
        n += 1
        if evaluate(pred, env) != evaluate(reference, env):
            bad.append(env)
    return n, bad


def describe(env):
    """'a < b = c < d' for a rank assignment."""
    groups = {}
    for k, v in env.items():
        groups.setdefault(v, []).append(k)
    return ' < '.join(' = '.join(sorted(groups[r])) for r in sorted(groups))

"""
Source overlays for checker self-tests: variants are computed from the AST of
today's tree (never from line numbers or frozen text), unparsed to source and
re-parsed by a fresh SourceIndex.
"""
import ast
import copy

from .source import norm, AnalysisError


class Variant(object):
    """One self-test variant of one file."""

    def __init__(self, name, kind, path, transform, expect=None, note='', also=()):
        assert kind in ('break', 'neutral', 'repair')
        self.name = name
        self.kind = kind          # 'break' must fire, 'neutral' must stay silent, 'repair' must make a base finding (expect) disappear
        self.path = path
        self.transform = transform
        self.expect = expect      # substring expected in rule or construct of the new finding
        self.note = note
        self.also = list(also)   # further (path, transform) pairs for multi-file edits

    def overlay(self, idx):
        out = self._one(idx, self.path, self.transform)
        for path, tr in self.also:
            out.update(self._one(idx, path, tr))
        return out

    def _one(self, idx, path, transform):
        text = idx.module(path).text
        tree = ast.parse(text)
        r = transform(tree)
        if r is False:
            raise AnalysisError('variant %s: transform found nothing to change' % self.name)
        ast.fix_missing_locations(tree)
        new = ast.unparse(tree)
        if new == ast.unparse(ast.parse(text)):
            raise AnalysisError('variant %s: transform changed nothing' % self.name)
        return {path: new}


def find_def(tree, dotted):
    """FunctionDef/ClassDef by dotted name inside a module tree."""
    node = tree
    for p in dotted.split('.'):
        found = None
        for st in ast.walk(node) if node is tree else node.body:
            if isinstance(st, (ast.FunctionDef, ast.AsyncFunctionDef, ast.ClassDef)) and st.name == p:
                found = st
                break
        if found is None:
            raise AnalysisError('mutate: no %s' % dotted)
        node = found
    return node


def _bodies(node):
    for n in ast.walk(node):
        for name in ('body', 'orelse', 'finalbody'):
            b = getattr(n, name, None)
            if isinstance(b, list) and b and isinstance(b[0], ast.stmt):
                yield n, name, b
        if isinstance(n, ast.Try):
            for h in n.handlers:
                yield h, 'body', h.body


def remove_stmt(scope, pred, count=1):
    """Remove the first `count` statements in scope matching pred(stmt)."""
    done = 0
    for owner, name, body in list(_bodies(scope)):
        for st in list(body):
            if done < count and pred(st):
                body.remove(st)
                if not body:
                    body.append(ast.Pass())
                done += 1
    return done > 0


def replace_stmt(scope, pred, new_stmts):
    """Replace the first statement matching pred by new statement(s) (source text or nodes)."""
    if isinstance(new_stmts, str):
        new_stmts = ast.parse(new_stmts).body
    for owner, name, body in list(_bodies(scope)):
        for i, st in enumerate(body):
            if pred(st):
                body[i:i + 1] = new_stmts
                return True
    return False


def insert_before(scope, pred, new_stmts, after=False):
    if isinstance(new_stmts, str):
        new_stmts = ast.parse(new_stmts).body
    for owner, name, body in list(_bodies(scope)):
        for i, st in enumerate(body):
            if pred(st):
                k = i + 1 if after else i
                body[k:k] = new_stmts
                return True
    return False


def insert_first(func, new_stmts):
    if isinstance(new_stmts, str):
        new_stmts = ast.parse(new_stmts).body
    k = 0
    if func.body and isinstance(func.body[0], ast.Expr) and isinstance(func.body[0].value, ast.Constant) \
            and isinstance(func.body[0].value.value, str):
        k = 1
    func.body[k:k] = new_stmts
    return True


def append_last(func, new_stmts):
    if isinstance(new_stmts, str):
        new_stmts = ast.parse(new_stmts).body
    func.body.extend(new_stmts)
    return True


def replace_expr(scope, pred, new_expr, count=1):
    """Replace expression nodes matching pred(node) by new_expr (text, node or callable)."""
    done = [0]

    class T(ast.NodeTransformer):
        def visit(self, node):
            if done[0] < count and isinstance(node, ast.expr) and pred(node):
                done[0] += 1
                if callable(new_expr):
                    return new_expr(node)
                if isinstance(new_expr, str):
                    return ast.parse(new_expr, mode='eval').body
                return copy.deepcopy(new_expr)
            return self.generic_visit(node)

    T().visit(scope)
    return done[0] > 0


def remove_decorator(func, text):
    for d in list(func.decorator_list):
        if norm(d) == text or norm(d).endswith('.' + text):
            func.decorator_list.remove(d)
            return True
    return False


def text_is(s):
    """Predicate: node whose normalised text equals s (after normalising s)."""
    try:
        target = ast.unparse(ast.parse(s))
    except SyntaxError:
        target = s
    return lambda node: norm(node) == target


def text_has(s):
    return lambda node: s in norm(node)


def stmt_has(s, kinds=None):
    def pred(st):
        if kinds and not isinstance(st, kinds):
            return False
        # only the statement's own header, not nested bodies
        from .flow import header_nodes
        return any(s in norm(h) for h in header_nodes(st))
    return pred


def rename_local(func, old, new):
    for n in ast.walk(func):
        if isinstance(n, ast.Name) and n.id == old:
            n.id = new
        elif isinstance(n, ast.arg) and n.arg == old:
            n.arg = new
    return True


def set_dict_value(dict_node, key_text, new_value):
    for i, k in enumerate(dict_node.keys):
        if k is not None and norm(k) == key_text:
            dict_node.values[i] = ast.parse(new_value, mode='eval').body if isinstance(new_value, str) else new_value
            return True
    return False


def del_dict_key(dict_node, key_text):
    for i, k in enumerate(dict_node.keys):
        if k is not None and norm(k) == key_text:
            del dict_node.keys[i]
            del dict_node.values[i]
            return True
    return False


def find_assign_value(scope, target_text):
    for n in ast.walk(scope):
        if isinstance(n, ast.Assign):
            for t in n.targets:
                if norm(t) == target_text:
                    return n.value
    raise AnalysisError('mutate: no assignment to %s' % target_text)

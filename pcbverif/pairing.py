"""
Acquire / release pairing over try-finally structure.

covered(fn, node, tr): the `finally` of `tr` runs whenever control has passed `node` -- node lies in tr.body, or node's
statement precedes tr in the same block with only calls from `safe` (calls that cannot fail) in between.
"""
import ast

from .source import norm, short
from .flow import own_nodes


def inside(node, container_list):
    for st in container_list:
        for x in ast.walk(st):
            if x is node:
                return True
    return False


def covered(fn, node, tr, safe=()):
    if inside(node, tr.body):
        return True
    for blk_owner in ast.walk(fn):
        for fld in ('body', 'orelse'):
            blk = getattr(blk_owner, fld, None)
            if isinstance(blk, list) and tr in blk:
                ti = blk.index(tr)
                for i, st in enumerate(blk[:ti]):
                    if inside(node, [st]):
                        bad = []
                        for later in blk[i + 1:ti]:
                            for c in own_nodes(later):
                                if isinstance(c, ast.Call) and norm(c.func) not in safe:
                                    bad.append(short(c))
                                if isinstance(c, ast.Raise):
                                    bad.append('raise')
                        return not bad
    return False


def registrations(fn, receivers=('self._temp_values', 'self._memory.temp_values', 'self.temp_values')):
    """-> [(add call, value text, [try nodes whose finally releases that value and covers the add])]"""
    out = []
    tries = [t for t in own_nodes(fn) if isinstance(t, ast.Try) and t.finalbody]
    for c in own_nodes(fn):
        if isinstance(c, ast.Call) and isinstance(c.func, ast.Attribute) and c.func.attr == 'add' and norm(c.func.value) in receivers and len(c.args) == 1:
            text = norm(c.args[0])
            rel = []
            for t in tries:
                for st in t.finalbody:
                    for r in ast.walk(st):
                        if isinstance(r, ast.Call) and isinstance(r.func, ast.Attribute) and r.func.attr in ('remove', 'discard') \
                                and norm(r.func.value) == norm(c.func.value) and len(r.args) == 1:
                            if norm(r.args[0]) == text or _loop_release(st, r, text, fn, c):
                                if covered(fn, c, t):
                                    rel.append(t)
            out.append((c, text, rel))
    return out


def _loop_release(st, r, text, fn, add_call):
    """`for x in coll: remove(x)` releases what `coll.append(v)` / `coll[k] = v` collected next to the registration."""
    if not isinstance(st, ast.For):
        return False
    coll = norm(st.iter)
    if norm(r.args[0]) not in (norm(st.target), '%s[%s]' % (coll, norm(st.target))):
        return False
    blk = add_call
    while not isinstance(blk, (ast.For, ast.FunctionDef)):
        blk = blk._parent
    for n in own_nodes(blk):
        if isinstance(n, ast.Call) and norm(n.func) == coll + '.append' and norm(n.args[0]) == text:
            return True
        if isinstance(n, ast.Assign) and isinstance(n.targets[0], ast.Subscript) and norm(n.targets[0].value) == coll and norm(n.targets[0]) == text:
            return True
    return False

"""
Report: obligations, findings keyed by (rule, construct), evidence JSON,
known-findings matching, VIOLATION / KNOWN-FINDING / ANALYSIS-ERROR lines.
"""
import json
import os
import time
import hashlib

VERIF = os.path.dirname(os.path.dirname(os.path.abspath(__file__)))
# developer runs against a deliberately broken tree (tools/seeded_eval.py) redirect their output
EVIDENCE_DIR = os.environ.get('PCBVERIF_EVIDENCE_DIR') or os.path.join(VERIF, 'evidence')
KNOWN_FILE = os.path.join(VERIF, 'known_findings.json')


def load_known():
    try:
        with open(KNOWN_FILE) as f:
            data = json.load(f)
    except IOError:
        return []
    return data.get('findings', [])


class Finding(object):

    def __init__(self, prop, rule, construct, where, detail):
        self.prop = prop
        self.rule = rule
        self.construct = construct
        self.where = where
        self.detail = detail

    def key(self):
        return (self.prop, self.rule, self.construct)

    def as_dict(self):
        return dict(
            property=self.prop, rule=self.rule, construct=self.construct,
            where=self.where, detail=self.detail,
        )


class Report(object):
    """Collects obligations of one property check."""

    def __init__(self, prop, tier='quick', level='other'):
        self.prop = prop
        self.tier = tier
        self.level = level
        self.t0 = time.time()
        self.obligations = 0
        self.discharged = 0
        self.findings = []
        self.by_rule = {}
        self.samples = []
        self.analysed = {}
        self.assumptions = []
        self.explanation = ''
        self.errors = []
        self.extra = {}
        self._seen = set()

    # -- recording ----------------------------------------------------------

    def ob(self, rule, construct, ok, detail='', where=''):
        """Record one obligation; a failed one becomes a finding."""
        self.obligations += 1
        r = self.by_rule.setdefault(rule, [0, 0])
        r[0] += 1
        if ok:
            self.discharged += 1
            r[1] += 1
            if len(self.samples) < 400 and (rule, construct) not in self._seen:
                self._seen.add((rule, construct))
                self.samples.append('%s: %s%s' % (rule, construct, (' -- ' + detail) if detail else ''))
        else:
            f = Finding(self.prop, rule, construct, where, detail)
            if f.key() not in set(x.key() for x in self.findings):
                self.findings.append(f)
        return ok

    def floor(self, rule, found, minimum, what='instances'):
        """A rule must match at least `minimum` sites, else the analysis is broken."""
        self.analysed['%s.%s' % (rule, what)] = found
        if found < minimum:
            self.errors.append(
                'rule %s matched %d %s, fewer than the %d confirmed by hand'
                % (rule, found, what, minimum)
            )

    def error(self, msg):
        self.errors.append(msg)

    def note(self, key, value):
        self.analysed[key] = value

    def assume(self, text):
        if text not in self.assumptions:
            self.assumptions.append(text)

    # -- output -------------------------------------------------------------

    def finish(self, selftest=None, write=True):
        """Print result lines, write evidence; returns the exit code."""
        known = [k for k in load_known() if k.get('property') == self.prop and k.get('status', 'known') == 'known']
        kkeys = dict(((k['property'], k['rule'], k['construct']), k) for k in known)
        violations, knowns = [], []
        for f in self.findings:
            if f.key() in kkeys:
                knowns.append((f, kkeys[f.key()]))
            else:
                violations.append(f)
        wall = time.time() - self.t0
        code = 0
        for f, k in knowns:
            print('KNOWN-FINDING: property=%s %s [%s] %s' % (
                self.prop, f.construct, f.rule, k.get('what_fails', f.detail)))
        if self.errors:
            for e in self.errors:
                print('ANALYSIS-ERROR property=%s %s' % (self.prop, e))
            code = 2
        paths = []
        if violations:
            vdir = os.path.join(EVIDENCE_DIR, 'violations')
            os.makedirs(vdir, exist_ok=True)
            for n, f in enumerate(violations):
                h = hashlib.sha1(repr(f.key()).encode()).hexdigest()[:10]
                p = os.path.join(vdir, '%s_%s.json' % (self.prop, h))
                with open(p, 'w') as fh:
                    json.dump(f.as_dict(), fh, indent=1)
                paths.append(p)
                if n < 12:
                    print('  rule=%s construct=%s' % (f.rule, f.construct))
                    print('    at %s' % (f.where,))
                    if f.detail:
                        print('    %s' % (f.detail[:400],))
                elif n == 12:
                    print('  ... %d more (see evidence/violations/)' % (len(violations) - 12))
                print('VIOLATION property=%s replay=%s' % (self.prop, p))
            # a concrete violation outranks an incomplete analysis: it is reported as such (exit 1);
            # the ANALYSIS-ERROR lines printed above still say what else could not be decided
            code = 1
        if write:
            self.write_evidence(wall, len(violations), knowns, selftest)
        if selftest is not None:
            print('self-test: %d variants (%d breaking, %d neutral): %d behaved as required, %d failed' % (
                selftest['variants'], selftest['breaking'], selftest['neutral'],
                len(selftest['passed']), len(selftest['failed'])))
            ns = selftest.get('neutral_stress')
            if ns:
                print('neutral stress: %d behaviour-preserving variants of %d anchored functions: %d alarms' % (
                    ns['variants'], ns['anchored_functions'], len(ns['alarms'])))
        print('%s %s: %d obligations, %d discharged, %d violations, %d known findings, %.2fs%s' % (
            self.prop, self.tier, self.obligations, self.discharged,
            len(violations), len(knowns), wall,
            '' if code != 2 else ' [ANALYSIS BROKEN]'))
        return code

    def write_evidence(self, wall, nviol, knowns, selftest):
        os.makedirs(EVIDENCE_DIR, exist_ok=True)
        cov = dict(
            obligations=self.obligations,
            discharged=self.discharged,
            checker_cmd='./check %s --tier %s' % (self.prop, self.tier),
            trusted_base=[
                'CPython ast parser', 'pcbverif engine (source/consts/flow/resolve)',
                'rule tables frozen in pcbverif/rules/%s.py' % self.prop.lower(),
            ],
            explanation=self.explanation,
            rule='; '.join('%s %d/%d' % (r, v[1], v[0]) for r, v in sorted(self.by_rule.items())),
            evaluations=max(1, self.obligations),
            distinct_nontrivial=max(2, len(self._seen)) if self.obligations else 0,
            samples=self.samples[:40] or ['(none)'],
            analysed=self.analysed,
            obligations_by_rule=dict((r, dict(total=v[0], discharged=v[1])) for r, v in sorted(self.by_rule.items())),
            known_findings=[f.construct + ' [' + f.rule + ']' for f, _ in knowns],
            analysis_errors=self.errors,
        )
        cov.update(self.extra)
        if selftest is not None:
            cov['selftest'] = selftest
        level = self.level
        if level == 'proof' and (self.discharged != self.obligations or self.errors):
            level = 'other'
        ev = dict(
            property_id=self.prop,
            tier=self.tier,
            seed=int(os.environ.get('VERIF_SEED', '0') or 0),
            level=level,
            coverage=cov,
            assumptions=self.assumptions,
            wall_s=round(wall, 3),
            violations=nviol,
        )
        p = os.path.join(EVIDENCE_DIR, '%s.json' % self.prop)
        tmp = p + '.tmp%d' % os.getpid()
        with open(tmp, 'w') as f:
            json.dump(ev, f, indent=1, sort_keys=True, default=str)
        os.replace(tmp, p)

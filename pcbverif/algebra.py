"""
Linear: a small normaliser for integer index arithmetic.
lin(expr) -> dict {term-text: coefficient, '': constant}; supports + - unary-,
multiplication by a constant, parentheses.  Non-linear sub-expressions become
opaque terms keyed by their normalised text.  Substitution of terms supported.
"""
import ast

from .source import norm


def lin(node, subst=None):
    subst = subst or {}
    t = norm(node)
    if t in subst:
        return lin(subst[t]) if not isinstance(subst[t], dict) else dict(subst[t])
    if isinstance(node, ast.Constant) and isinstance(node.value, int) and not isinstance(node.value, bool):
        return {'': node.value}
    if isinstance(node, ast.UnaryOp) and isinstance(node.op, ast.USub):
        return scale(lin(node.operand, subst), -1)
    if isinstance(node, ast.UnaryOp) and isinstance(node.op, ast.UAdd):
        return lin(node.operand, subst)
    if isinstance(node, ast.BinOp):
        if isinstance(node.op, ast.Add):
            return add(lin(node.left, subst), lin(node.right, subst))
        if isinstance(node.op, ast.Sub):
            return add(lin(node.left, subst), scale(lin(node.right, subst), -1))
        if isinstance(node.op, ast.Mult):
            l, r = lin(node.left, subst), lin(node.right, subst)
            if set(l) <= {''}:
                return scale(r, l.get('', 0))
            if set(r) <= {''}:
                return scale(l, r.get('', 0))
            # product of non-constant factors: canonical (commutative) key
            return {'*'.join(sorted(_factors(node))): 1}
    return {t: 1}


def _factors(node):
    if isinstance(node, ast.BinOp) and isinstance(node.op, ast.Mult):
        return _factors(node.left) + _factors(node.right)
    return [norm(node)]


def add(a, b):
    out = dict(a)
    for k, v in b.items():
        out[k] = out.get(k, 0) + v
    return clean(out)


def scale(a, c):
    return clean(dict((k, v * c) for k, v in a.items()))


def clean(a):
    return dict((k, v) for k, v in a.items() if v != 0)


def parse(text):
    return ast.parse(text, mode='eval').body
